"""C01 — every request text gets a well-formed response; dispatch never raises."""
from __future__ import annotations

import ast
from typing import List, Optional, Set, Tuple

from ..absint import EMPTY_ENV, Config, Env, Interp
from ..cfg import CFG, Node
from ..model import AnalysisError, ClassInfo, FuncInfo, Program, dotted, norm
from ..report import Check
from ..types import FuncScope, types_of, walk_own
from ..util import calls_in, classify_cond, guard_edges, is_unset_expr, short, stmt_node_of, walk_no_defs
from .common import (EXC, V20, DispatcherRoles, config_param_policy, dispatchers, floc, kwarg, response_ctor_calls)
from .wire import ERROR_SPEC, RESPONSE_SPEC, check_wire_shape

IDENTITY = EXC + '.IdentityError'


def id_echo_problems(prog: Program, r: DispatcherRoles) -> List[Tuple[FuncInfo, ast.Call, str]]:
    """Every response built in the per-element chain carries `id=<request parameter>.id`."""
    out = []
    for f in (r.handle_request, r.handle_rpc_request):
        params = [p.arg for p in f.params[1:]]
        for call in response_ctor_calls(prog, f):
            idv = kwarg(call, 'id', 0)
            d = dotted(idv) if idv is not None else None
            ok = d is not None and d.endswith('.id') and d[:-3] in params and not _reassigned(f, d[:-3])
            if not ok:
                out.append((f, call, f'response built with id={norm(idv) if idv is not None else "<missing>"}, '
                            f'not the id of the request being handled'))
    return out


def _reassigned(f: FuncInfo, name: str) -> bool:
    for st in walk_own(f.node):
        if isinstance(st, ast.Name) and st.id == name and isinstance(st.ctx, (ast.Store, ast.Del)):
            return True
    return False


def make_interp(prog: Program, roles: List[DispatcherRoles], ck: Optional[Check] = None) -> Interp:
    policy = config_param_policy(prog, roles)
    ty = types_of(prog)

    def infeasible(f: FuncInfo, n: Node, R: str, env: Env) -> Optional[str]:
        # lemma: the batch response cannot contain duplicate ids, because every element response echoes the id
        # of its own request (ID-ECHO) and the accepted request batch has pairwise distinct ids (strict ctor).
        if R != IDENTITY:
            return None
        for r in roles:
            if f is r.dispatch:
                sc = FuncScope(f, ty)
                hit = False
                for c in calls_in(n):
                    for k, o in ty.callees(c, sc):
                        if k == 'ctor' and isinstance(o, ClassInfo) and o.qualname == V20 + '.BatchResponse':
                            hit = True
                if not hit:
                    return None
                if id_echo_problems(prog, r):
                    return None
                if not _request_batch_is_strict(prog, r):
                    return None
                return ('duplicate response ids are impossible: each element response carries the id of its own '
                        'request (ID-ECHO verified) and the accepted batch was built by the strict BatchRequest '
                        'constructor, which rejects duplicate ids (verified); middlewares are assumed not to forge ids')
        return None

    return Interp(prog, Config(user_raises=policy, infeasible=infeasible))


def _request_batch_is_strict(prog: Program, r: DispatcherRoles) -> bool:
    """BatchRequest.from_json builds the batch through the constructor with strict left at its True default,
    and the constructor path raises IdentityError on duplicates."""
    bf = prog.funcs.get(V20 + '.BatchRequest.from_json')
    init = prog.funcs.get(V20 + '.BatchRequest.__init__')
    if bf is None or init is None:
        return False
    d = init.param_default('strict')
    if not (isinstance(d, ast.Constant) and d.value is True):
        return False
    for x in walk_own(bf.node):
        if isinstance(x, ast.Call) and any(kw.arg == 'strict' for kw in x.keywords):
            return False
    it = Interp(prog)
    res = it.analyze(bf, {EMPTY_ENV}, recv=V20 + '.BatchRequest')
    if IDENTITY not in res.raised_classes():
        return False
    # the request-side duplicate check must be at least as strict as the response-side one:
    # only None ids are exempt, every other id (0 and "" included) is checked
    from .c06 import dup_check_problems
    add_ids = prog.funcs.get(V20 + '.BatchRequest._add_ids')
    if add_ids is None:
        return False
    try:
        return not dup_check_problems(prog, add_ids)
    except AnalysisError:
        return False


def is_exception_class(prog: Program, cls: str) -> bool:
    return prog.exc_subclass(cls, 'Exception') or (cls.endswith('+') and prog.exc_subclass('Exception', cls))


def _encoder_classes(prog: Program) -> Set[str]:
    """classes the server / common JSON encoders have an isinstance branch for"""
    out: Set[str] = set()
    for cq in ('pjrpc.server.dispatcher.JSONEncoder', 'pjrpc.common.common.JSONEncoder'):
        ci = prog.classes.get(cq)
        d = ci.methods.get('default') if ci is not None else None
        if d is None:
            continue
        for y in ast.walk(d.node):
            if isinstance(y, ast.Call) and dotted(y.func) == 'isinstance' and len(y.args) == 2:
                for t_ in (y.args[1].elts if isinstance(y.args[1], ast.Tuple) else [y.args[1]]):
                    ent = prog.resolve(d.module, t_, ci)
                    if isinstance(ent, ClassInfo):
                        out.add(ent.qualname)
    return out



def sized_json_problems(prog: Program, f: FuncInfo) -> Tuple[int, List[Tuple[int, str, str]]]:
    """SIZED-JSON.  What the JSON loader returns may be any JSON value: `len(v)`, iterating v or subscripting it raises TypeError
    for null / true / false / a number, and nothing in dispatch() converts a TypeError into a reply.  Such a use is admissible only
    where the type tests on the same value (resolved per JSON type) keep the scalars away.  (#uses examined, problems)"""
    cfg = CFG(f, prog)
    loaded: Set[str] = set()
    for n in cfg.stmt_nodes():
        a = n.ast
        if isinstance(a, (ast.Assign, ast.AnnAssign)) and getattr(a, 'value', None) is not None:
            v = a.value
            while isinstance(v, ast.Await):
                v = v.value
            if isinstance(v, ast.Call) and (dotted(v.func) or '').endswith(('_json_loader', 'json.loads', 'json_loader')):
                for t in (a.targets if isinstance(a, ast.Assign) else [a.target]):
                    if isinstance(t, ast.Name):
                        loaded.add(t.id)
    n_uses = 0
    problems: List[Tuple[int, str, str]] = []
    tags = {'NoneType': 'null', 'bool': 'true / false', 'int': 'a number', 'float': 'a number'}
    for var in sorted(loaded):
        uses = []
        for n in cfg.nodes:
            if n.ast is None:
                continue
            top = n.ast.iter if n.kind in ('iter', 'next') and hasattr(n.ast, 'iter') else n.ast
            if n.kind in ('iter',) and isinstance(top, ast.Name) and top.id == var:
                uses.append((n, top, f'iterating `{var}`'))
            if isinstance(top, (ast.FunctionDef, ast.AsyncFunctionDef, ast.ClassDef)):
                continue
            frags = [top] if n.kind not in ('iter', 'next') else []
            for fr in frags:
                for x in ast.walk(fr.test if n.kind == 'cond' and hasattr(fr, 'test') else fr):
                    if isinstance(x, ast.Call) and dotted(x.func) == 'len' and len(x.args) == 1 and dotted(x.args[0]) == var:
                        uses.append((n, x, f'`{norm(x)}`'))
                    elif isinstance(x, ast.Subscript) and dotted(x.value) == var and isinstance(x.ctx, ast.Load):
                        uses.append((n, x, f'`{norm(x)}`'))
        for n, x, what in uses:
            n_uses += 1
            caught = False
            for t_ in [y for y in walk_own(f.node) if isinstance(y, ast.Try)]:
                if any(z is x for b_ in t_.body for z in ast.walk(b_)):
                    for h_ in t_.handlers:
                        hn = [dotted(q) for q in (h_.type.elts if isinstance(h_.type, ast.Tuple) else [h_.type])] if h_.type is not None else ['BaseException']
                        if any((q or '').rsplit('.', 1)[-1] in ('TypeError', 'Exception', 'BaseException') for q in hn):
                            caught = True
            if caught:
                continue
            bad_tags = []
            for tag, word in tags.items():
                avoid = []
                for c in cfg.nodes:
                    if c.kind != 'cond':
                        continue
                    t_, neg = c.ast, False
                    while isinstance(t_, ast.UnaryOp) and isinstance(t_.op, ast.Not):
                        t_, neg = t_.operand, not neg
                    truth = None
                    if isinstance(t_, ast.Call) and dotted(t_.func) == 'isinstance' and len(t_.args) == 2 and dotted(t_.args[0]) == var:
                        tp = t_.args[1]
                        names = {dotted(y) for y in (tp.elts if isinstance(tp, ast.Tuple) else [tp])}
                        if names <= {'list', 'tuple', 'dict', 'str', 'int', 'float', 'bool', 'bytes'}:
                            truth = tag in names or (tag == 'bool' and 'int' in names)
                    elif isinstance(t_, ast.Compare) and len(t_.ops) == 1 and isinstance(t_.ops[0], (ast.Is, ast.IsNot)) and dotted(t_.left) == var and \
                            isinstance(t_.comparators[0], ast.Constant) and t_.comparators[0].value is None:
                        truth = (tag == 'NoneType') == isinstance(t_.ops[0], ast.Is)
                    if truth is None:
                        continue
                    taken = truth != neg
                    avoid += [ed for ed in cfg.succ[c.id] if ed.label in ('T', 'F') and (ed.label == 'T') != taken]
                # a use inside the very condition that tests the type (`isinstance(v, list) and len(v) > n`) is decomposed by the CFG
                if n.id in cfg.reachable(cfg.entry, avoid_edges=avoid):
                    bad_tags.append(word)
            if bad_tags:
                problems.append((getattr(x, 'lineno', n.line), f'{what} on a JSON value of any type',
                                 f'{what} is evaluated for a request text that is {" / ".join(sorted(set(bad_tags)))} (`{var}` is what the JSON loader '
                                 f'returned; no type test keeps scalars away): TypeError, which no handler of dispatch() turns into a reply'))
    return n_uses, problems


def error_ctor_arguments(prog: Program):
    """(number of constructions, [(function, line, construct, message)]) over pjrpc.server.* and pjrpc.common.*: a construction of a
    JsonRpcError subclass whose first / second positional argument (or code= / message= keyword) is not an integer / string by
    its form: a literal of the other kind, an exception variable, a container."""
    from ..types import FuncScope, types_of
    ty = types_of(prog)
    base_q = EXC + '.JsonRpcError'
    n_sites = 0
    bad = []
    for f in prog.iter_funcs():
        if not f.module.name.startswith(('pjrpc.server', 'pjrpc.common')) or not isinstance(f.node, (ast.FunctionDef, ast.AsyncFunctionDef)):
            continue
        sc = FuncScope(f, ty)
        handler_vars = {x.name for x in ast.walk(f.node) if isinstance(x, ast.ExceptHandler) and x.name}
        for x in walk_own(f.node):
            if not isinstance(x, ast.Call):
                continue
            try:
                tg = ty.callees(x, sc)
            except RecursionError:
                continue
            cls_ = [o for k, o in tg if k == 'ctor' and isinstance(o, ClassInfo) and
                    any(getattr(c, 'qualname', None) == base_q for c in prog.mro(o))]
            if not cls_ or len(cls_) != len(tg):
                continue
            n_sites += 1
            slots = {}
            for i, a in enumerate(x.args[:2]):
                if not isinstance(a, ast.Starred):
                    slots['code' if i == 0 else 'message'] = a
            for kw in x.keywords:
                if kw.arg in ('code', 'message'):
                    slots[kw.arg] = kw.value
            # data: what goes on the wire as error data is produced by the server encoder — an exception object only if the encoder
            # has a branch for its class (the validation error of a call that does not bind has one)
            data_a = x.args[2] if len(x.args) > 2 and not any(isinstance(a, ast.Starred) for a in x.args[:3]) else \
                next((kw.value for kw in x.keywords if kw.arg == 'data'), None)
            if isinstance(data_a, ast.Name) and data_a.id in handler_vars:
                hs = [h for h in ast.walk(f.node) if isinstance(h, ast.ExceptHandler) and h.name == data_a.id and
                      any(y is x for b_ in h.body for y in ast.walk(b_))]
                if hs:
                    h = hs[-1]
                    tps = (h.type.elts if isinstance(h.type, ast.Tuple) else [h.type]) if h.type is not None else []
                    caught = []
                    for t_ in tps:
                        ent = prog.resolve(f.module, t_, f.cls)
                        caught.append(ent.qualname if isinstance(ent, ClassInfo) else (ent if isinstance(ent, str) else norm(t_)))
                    enc_ok = _encoder_classes(prog)
                    not_enc = [c for c in caught if not any(c == e_ or (c in prog.classes and any(getattr(b, 'qualname', None) == e_ for b in prog.mro(prog.classes[c])))
                                                           for e_ in enc_ok)]
                    if not_enc or not caught:
                        bad.append((f, x.lineno, f'error data is the caught exception `{data_a.id}`',
                                    f'`{norm(x)[:80]}` puts the caught {(not_enc or ["exception"])[0].rsplit(".", 1)[-1]} object itself into the error data: the '
                                    f'server JSON encoder has no branch for it, so producing the response text raises TypeError and dispatch() '
                                    f'raises instead of answering (the text of the exception, `str({data_a.id})`, is what is encodable)'))
            for slot, a in slots.items():
                wrong = None
                if isinstance(a, ast.Constant) and a.value is not None:
                    if slot == 'code' and (not isinstance(a.value, int) or isinstance(a.value, bool)):
                        wrong = f'the literal {a.value!r}'
                    if slot == 'message' and not isinstance(a.value, str):
                        wrong = f'the literal {a.value!r}'
                elif isinstance(a, ast.Name) and a.id in handler_vars:
                    wrong = f'the caught exception `{a.id}`'
                elif isinstance(a, (ast.Dict, ast.List, ast.Tuple, ast.Set, ast.ListComp, ast.DictComp)):
                    wrong = f'the container `{norm(a)[:40]}`'
                elif slot == 'code' and isinstance(a, (ast.JoinedStr,)) or slot == 'code' and isinstance(a, ast.Call) and dotted(a.func) in ('str', 'repr'):
                    wrong = f'the string `{norm(a)[:40]}`'
                if wrong:
                    bad.append((f, x.lineno, f'error {slot} is {wrong[:50]}',
                                f'`{norm(x)[:80]}` passes {wrong} in the {slot} position of the error constructor (positional order is code, '
                                f'message, data): the response then carries a non-{"integer code" if slot == "code" else "string message"} '
                                f'and dispatch reports it among the error codes'))
    return n_sites, bad


def run(ck: Check, prog: Program) -> None:
    from .common import dispatcher_program
    prog = dispatcher_program(prog)
    roles = dispatchers(prog)
    ck.explain('Exception-escape analysis (abstract interpretation over the CFG with exception edges, sentinel-kind '
               'domain, context-sensitive callee analysis) of both dispatch entry points: no exception class that is an '
               'Exception may leave dispatch, for every request text (no rule depends on the text). Plus structural '
               'wire-shape rules for Response/JsonRpcError.to_json, the empty-batch guard and the provenance of the '
               'error-codes tuple.')
    ck.assume('registered methods may raise any Exception; callables taken from dispatcher constructor parameters '
              '(middlewares, error handlers, json loader/dumper on encodable values) do not raise (the property\'s proviso)')
    ck.assume('default slot configuration: json.loads/json.dumps, v20 message classes')
    ck.assume('values of type Any are never the UNSET sentinel unless annotated MaybeSet')
    ck.not_decided += ['JSON-encodability of method results', 'NaN/Infinity literals', 'nesting beyond the recursion limit',
                       'custom loaders / dumpers / message classes']
    ck.trusted.append('summary table of external callees (json.loads: JSONDecodeError, ValueError; Signature.bind: TypeError; …)')
    interp = make_interp(prog, roles)

    for r in roles:
        half = short(r.dispatch.qualname)
        for f in r.chain:
            ck.functions.add(f.qualname)
        # ---- ESC-DISPATCH -------------------------------------------------------------------------
        res = interp.analyze(r.dispatch, {EMPTY_ENV}, recv=r.cls.qualname)
        escaped = {(c, o): w for (c, o), w in res.raises.items() if is_exception_class(prog, c)}
        sites = 0
        for nid, rs in res.node_raises.items():
            for (c, o), w in rs.items():
                sites += 1
                esc = (c, o) in escaped or any(c2 == c and o2 == o for (c2, o2) in escaped)
                ck.ob('ESC-DISPATCH', f'{half}: {c} raised at {w.rel}:{w.line}', not esc,
                      sample={'site': f'{w.rel}:{w.line} {w.text[:80]}', 'class': c,
                              'covered': 'caught inside dispatch' if not esc else 'ESCAPES'})
        ck.require('ESC-DISPATCH', f'raising sites in {half}', sites, 4)
        for (c, o), w in escaped.items():
            inner = w.innermost()
            ck.finding('ESC-DISPATCH', r.dispatch.qualname, f'{c} <- {short(inner.func)}|{inner.okey}',
                       w.rel, w.line,
                       f'{c} can escape dispatch (no enclosing handler covers it): the server raises instead of answering',
                       w.chain())
        # ---- CATCH-ALL ---------------------------------------------------------------------------
        res1 = interp.analyze(r.handle_request, {EMPTY_ENV}, recv=r.cls.qualname)
        esc1 = {(c, o): w for (c, o), w in res1.raises.items() if is_exception_class(prog, c)}
        ck.ob('CATCH-ALL', f'{short(r.handle_request.qualname)}: nothing but BaseException escapes the per-element handler',
              not esc1, sample={'raising sites': sum(len(v) for v in res1.node_raises.values())})
        for (c, o), w in esc1.items():
            inner = w.innermost()
            ck.finding('CATCH-ALL', r.handle_request.qualname, f'{c} <- {short(inner.func)}|{inner.okey}', w.rel, w.line,
                       f'{c} escapes the per-element handler: a failing method would abort the whole dispatch', w.chain())
        # ---- EMPTY-BATCH -------------------------------------------------------------------------
        _empty_batch(ck, prog, r)
        # ---- CODES-SAME-OBJ ----------------------------------------------------------------------
        _codes_same_obj(ck, prog, r)

    # ---- WIRE-SHAPE (shared message model) ----------------------------------------------------------
    for q, spec in ((V20 + '.Response.to_json', RESPONSE_SPEC), (EXC + '.JsonRpcError.to_json', ERROR_SPEC)):
        f = prog.func(q)
        ck.functions.add(q)
        problems, n = check_wire_shape(prog, f, spec)
        for i in range(n):
            ck.ob('WIRE-SHAPE', f'{short(q)} sub-obligation {i}', i >= len(problems), nontrivial=True)
        for construct, msg, line in problems:
            ck.finding('WIRE-SHAPE', q, construct, f.module.rel, line, msg)
    # constructor invariant: exactly one of result / error (used by to_json)
    inv = interp.invariant(V20 + '.Response')
    ok = bool(inv) and all(
        (dict(e).get('self._result', frozenset('U')) == frozenset('U')) != (dict(e).get('self._error', frozenset('U')) == frozenset('U'))
        for e in inv) and all('self._result' in dict(e) and 'self._error' in dict(e) for e in (inv or []))
    fr = prog.func(V20 + '.Response.__init__')
    ck.ob('RESP-INVARIANT', 'Response constructor admits exactly one of result/error (derived class invariant)', ok,
          sample={'invariant_envs': [str(sorted((k, ''.join(sorted(v))) for k, v in e)) for e in (inv or [])]})
    if not ok:
        ck.finding('RESP-INVARIANT', fr.qualname, 'exactly-one-of result/error', fr.module.rel, fr.node.lineno,
                   'the Response constructor no longer guarantees exactly one of result / error '
                   '(assertions missing or fields written elsewhere): a response object with both or neither can be serialised')
    # BatchResponse.to_json: a list of element wire forms, or the batch-level error object
    _batch_to_json(ck, prog)
    # ---- ID-SHAPE: the id a response echoes is the one Request.from_json admitted: string, integer (not bool) or null ----
    from . import c06
    mprog = c06.model_program(prog)
    rf = mprog.func(V20 + '.Request.from_json')
    ck.functions.add(rf.qualname)
    c06._field_guards(ck, mprog, rf)
    # values taken from the request document are never hashed while they can still be arrays / objects (TypeError out of dispatch)
    for q_ in ('pjrpc.common.v20' + '.Request.from_json', 'pjrpc.common.v20' + '.BatchRequest.from_json'):
        hf_ = mprog.func(q_)
        ck.functions.add(hf_.qualname)
        c06._hash_uses(ck, mprog, hf_)
    # responses built by dispatch itself (document-level rejections) carry the id null: nothing read from the unvalidated JSON
    from ..flow import Flow as _FlowD
    for r in roles:
        f_ = r.dispatch
        cfg_d = CFG(f_, prog)
        fl_d = _FlowD(cfg_d)
        for call in response_ctor_calls(prog, f_):
            idv = kwarg(call, 'id', 0)
            n_d = stmt_node_of(cfg_d, call)
            leafs = [al.expr for al in fl_d.alts(n_d, idv)] if (idv is not None and n_d is not None) else []
            ok_id = bool(leafs) and all(isinstance(v, ast.Constant) and v.value is None for v in leafs)
            ck.ob('ID-SHAPE', f'{short(f_.qualname)}: a document-level rejection is answered with id null', ok_id)
            if not ok_id:
                ck.finding('ID-SHAPE', f_.qualname, f'document-level response with id={norm(idv)[:40] if idv is not None else "<missing>"}', f_.module.rel, call.lineno,
                           f'`{norm(call)[:90]}`: a response built before a request was accepted must carry id null; a value taken from the unvalidated '
                           f'document can be a boolean, an array or an object, which is not a well-formed response id')
    # ---- ERROR-SHAPE: an error object is built with exactly the integer code and string message it was given -----------
    from .sentinel import sent_truth
    from .wire import ctor_precedence_problems
    ctor = prog.func(EXC + '.JsonRpcError.__init__')
    ck.functions.add(ctor.qualname)
    flagged, n_c = sent_truth(prog, Interp(prog), ctor, scalar_rule=True)
    ck.ob('ERROR-SHAPE', 'JsonRpcError.__init__ keeps the given code and message (no truthiness on protocol scalars)', not flagged,
          sample={'conditions': n_c})
    for s_, why, kinds in flagged:
        ck.finding('ERROR-SHAPE', ctor.qualname, f'truthiness of {norm(s_.expr)} in {s_.context}', ctor.module.rel, s_.node.line,
                   f'`{norm(s_.node.ast)[:100]}`: {why}. An error built with code 0 or message "" falls back to the class default, which is None '
                   f'for the base class: the response carries "code": null / "message": null and dispatch returns (None,) as error codes')
    eci = prog.cls(EXC + '.JsonRpcError')
    pp = ctor_precedence_problems(prog, eci)
    ck.ob('ERROR-SHAPE', 'JsonRpcError.__init__: a given code / message wins over the class-level default', not pp)
    for c_, m_, l_ in pp:
        ck.finding('ERROR-SHAPE', ctor.qualname, c_, eci.module.rel, l_, m_)
    # ... and every error the server side builds itself passes an integer as code and a string as message: positional arguments of
    # the error constructors are (code, message, data), so a payload passed positionally becomes the code
    n_sites, bad_sites = error_ctor_arguments(prog)
    ck.ob('ERROR-SHAPE', f'{n_sites} error constructions in the server / common packages: code and message positions hold an integer / a string', not bad_sites,
          sample={'constructions': n_sites})
    ck.require('ERROR-SHAPE', 'error constructions in pjrpc.server / pjrpc.common', n_sites, 8)
    for f_, line_, construct_, msg_ in bad_sites:
        ck.finding('ERROR-SHAPE', f_.qualname, construct_, f_.module.rel, line_, msg_)
    ck.extra['call_sites_resolved'] = interp.calls_resolved
    ck.extra['contexts_analysed'] = interp.contexts
    ck.extra['assumed_total_callees'] = {k: len(v) for k, v in sorted(interp.assumed_total.items())}
    ck.extra['user_call_sites'] = interp.user_calls
    ck.extra['lemmas'] = interp.lemmas
    if interp.depth_cutoffs:
        raise AnalysisError(f'call depth bound hit at {sorted(interp.depth_cutoffs)}')
    for r_ in roles:
        n_sz, sz = sized_json_problems(prog, r_.dispatch)
        ck.ob('SIZED-JSON', f'{short(r_.dispatch.qualname)}: {n_sz} len() / iteration / subscript uses of the loaded JSON value are kept to containers', not sz,
              nontrivial=n_sz > 0)
        for line, construct, msg in sz:
            ck.finding('SIZED-JSON', r_.dispatch.qualname, construct, r_.dispatch.module.rel, line, msg)
    from . import borrow
    borrow(ck, prog, 'C06', {'CONTAINER-GUARD'}, 'a JSON scalar handed to a deserialiser must be refused by its container test, not reach len() / iteration')
    # the response text is produced with the server encoder: what the dispatcher itself puts into an error (the validation error of
    # a call that does not bind) must be encodable by it, or json.dumps raises out of dispatch
    from .totality import encoder_default
    encoder_default(ck, prog, 'pjrpc.server.dispatcher.JSONEncoder', ['pjrpc.server.validators.base.ValidationError'],
                    why='InvalidParamsError(data=<ValidationError>) is what a call that does not bind is answered with; the response '
                        'text cannot be produced and dispatch raises TypeError instead of answering -32602')


def _empty_batch(ck: Check, prog: Program, r: DispatcherRoles) -> None:
    f = r.dispatch
    ty = types_of(prog)
    sc = FuncScope(f, ty)
    cfg = CFG(f, prog)
    found = 0
    for n in cfg.stmt_nodes():
        for call in calls_in(n):
            if not any(k == 'ctor' and isinstance(o, ClassInfo) and o.qualname == V20 + '.BatchResponse'
                       for k, o in ty.callees(call, sc)):
                continue
            stars = [a.value for a in call.args if isinstance(a, ast.Starred)]
            if not stars:
                continue    # e.g. an empty BatchResponse() with error=
            found += 1
            var = dotted(stars[0])
            guarded, why = _nonempty_guard(prog, f, cfg, n, call, var)
            ck.ob('EMPTY-BATCH', f'{short(f.qualname)}: batch response construction guarded by a non-emptiness test', guarded,
                  sample={'construct': norm(call)[:100], 'guard': why})
            if not guarded:
                ck.finding('EMPTY-BATCH', f.qualname, 'batch response built without non-emptiness guard', f.module.rel, call.lineno,
                           'an accepted batch whose elements are all notifications is answered with "[]" instead of nothing '
                           '(JSON-RPC 2.0: the array of a batch response must not be empty)',
                           [f'{f.module.rel}:{call.lineno} {norm(call)[:120]}', why])
    ck.require('EMPTY-BATCH', f'batch response constructions in {short(f.qualname)}', found, 1)


def _materialised(f: FuncInfo, var: str) -> Tuple[bool, str]:
    """Is `var` a materialised sequence (so that truthiness / len() mean non-emptiness)?  A generator object is always truthy."""
    defs = []
    for st in walk_own(f.node):
        if isinstance(st, ast.Assign) and any(isinstance(t, ast.Name) and t.id == var for t in st.targets):
            defs.append(st.value)
        elif isinstance(st, ast.AnnAssign) and isinstance(st.target, ast.Name) and st.target.id == var and st.value is not None:
            defs.append(st.value)
    for d in defs:
        while isinstance(d, ast.Await):
            d = d.value
        if isinstance(d, (ast.GeneratorExp,)) or (isinstance(d, ast.Call) and dotted(d.func) in ('filter', 'map', 'iter', 'zip', 'reversed', 'it.chain', 'itertools.chain')):
            return False, f'`{var} = {norm(d)[:60]}` is a lazy iterator: it is always truthy, so the emptiness test never fires'
    return True, ''


def _nonempty_guard(prog: Program, f: FuncInfo, cfg: CFG, n: Node, call: ast.Call, var: Optional[str]) -> Tuple[bool, str]:
    if var is not None:
        mat, why = _materialised(f, var)
        if not mat:
            return False, why
    # form 1: conditional expression  `B(*rs) if rs else UNSET`
    for frag in (n.ast,):
        for x in ast.walk(frag):
            if isinstance(x, ast.IfExp) and any(y is call for y in ast.walk(x.body)):
                ckd = classify_cond(prog, f, x.test)
                if var and _is_nonempty_test(ckd, var, positive=True):
                    if is_unset_expr(prog, f, x.orelse):
                        return True, f'conditional expression on `{norm(x.test)}` with UNSET otherwise'
                    return False, f'conditional expression on `{norm(x.test)}` but the other arm is `{norm(x.orelse)}`, not UNSET'
            if isinstance(x, ast.IfExp) and any(y is call for y in ast.walk(x.orelse)):
                ckd = classify_cond(prog, f, x.test)
                if var and _is_nonempty_test(ckd, var, positive=False):
                    if is_unset_expr(prog, f, x.body):
                        return True, f'conditional expression on `{norm(x.test)}` with UNSET otherwise'
    # form 2: dominating branch
    for g in guard_edges(cfg, n):
        ckd = classify_cond(prog, f, g.src.ast)
        if var and _is_nonempty_test(ckd, var, positive=(g.label == 'T')):
            return True, f'branch `{norm(g.src.ast)}`:{g.label}'
        if ckd.kind == 'truthy' and ckd.subject and ckd.subject.endswith('.is_notification') and \
                (g.label == 'F') != ckd.negated:
            return True, f'branch `{norm(g.src.ast)}`:{g.label} (batch is not all-notification)'
        if var and ckd.kind == 'other' and var in ckd.detail:
            raise AnalysisError(f'{f.qualname}: unrecognised guard `{ckd.detail}` on the batch responses; '
                                f'recognised forms: truthiness / len() comparison of the list, is_notification')
    if var is None:
        return False, 'the element responses are passed as an inline generator: nothing tests whether any response remains'
    return False, f'no branch or conditional expression tests `{var}` for emptiness before the batch response is built'


def _is_nonempty_test(ckd, var: str, positive: bool) -> bool:
    if ckd.subject != var:
        return False
    if ckd.kind == 'truthy':
        return positive != ckd.negated
    if ckd.kind == 'len-cmp':
        d = ckd.detail.replace(' ', '')
        pos_forms = (f'len({var})>0', f'len({var})!=0', f'len({var})>=1')
        neg_forms = (f'len({var})==0', f'len({var})<1')
        if d in pos_forms:
            return positive != ckd.negated
        if d in neg_forms:
            return positive == ckd.negated
    return False


def _codes_same_obj(ck: Check, prog0: Program, r: DispatcherRoles) -> None:
    # helpers extracted from the tail of dispatch (serialise + log + codes) are looked at as part of dispatch
    from ..inline import inlined_program
    prog = inlined_program(prog0, [r.dispatch.qualname], keep=[g.qualname for g in r.chain])
    f = prog.func(r.dispatch.qualname)
    ty = types_of(prog)
    sc = FuncScope(f, ty)
    cfg = CFG(f, prog)
    ser: List[Tuple[Node, str]] = []
    cod: List[Tuple[Node, str, FuncInfo]] = []
    for n in cfg.stmt_nodes():
        for call in calls_in(n):
            if isinstance(call.func, ast.Attribute) and call.func.attr == 'to_json' and not call.args:
                d = dotted(call.func.value)
                if d:
                    ser.append((n, d))
            for k, o in ty.callees(call, sc):
                if k == 'func' and isinstance(o, FuncInfo) and o.cls is None and call.args and \
                        'code' in o.name and dotted(call.args[0]):
                    cod.append((n, dotted(call.args[0]), o))
    ck.require('CODES-SAME-OBJ', f'serialisation / code-extraction calls in {short(f.qualname)}', min(len(ser), len(cod)), 1)
    for (n2, y, fn) in cod:
        ck.functions.add(fn.qualname)
        same = [(n1, x) for (n1, x) in ser if x == y]
        ok = bool(same)
        why = ''
        if not same:
            why = f'codes are extracted from `{y}` but the serialised object is `{", ".join(x for _, x in ser)}`'
        else:
            n1 = same[0][0]
            # no reassignment of the variable between the two uses
            from ..util import assigned_names
            between = cfg.reachable(n1) & _can_reach(cfg, n2)
            for m in cfg.nodes:
                if m.id in between and m is not n1 and y in assigned_names(m):
                    ok = False
                    why = f'`{y}` is reassigned at line {m.line} between serialisation and code extraction'
        ck.ob('CODES-SAME-OBJ', f'{short(f.qualname)}: error codes are computed from the serialised response object', ok,
              sample={'serialised': [x for _, x in ser], 'codes_from': y})
        if not ok:
            ck.finding('CODES-SAME-OBJ', f.qualname, 'codes from a different object', f.module.rel, n2.line,
                       'the error codes returned alongside the text do not describe the serialised document: ' + why)
        _codes_shape(ck, prog0, prog0.func(fn.qualname))


def _can_reach(cfg: CFG, target: Node) -> Set[int]:
    out = {target.id}
    changed = True
    while changed:
        changed = False
        for e in cfg.edges():
            if e.dst.id in out and e.src.id not in out:
                out.add(e.src.id)
                changed = True
    return out


def _codes_shape(ck: Check, prog: Program, fn: FuncInfo) -> None:
    """extract_error_codes: one entry per response object: its error code, or 0 for a success.  Decided on value flow
    (reaching definitions + path guards), so conditional expressions, early returns and append-loops are all the same."""
    from ..flow import Flow
    key = f'CODES-SHAPE|{fn.qualname}'
    if key in ck.extra.setdefault('_done', set()):
        return
    ck.extra['_done'].add(key)
    param = fn.params[0].arg if fn.params else None
    problems: List[str] = []
    n_codes = 0
    cfg = CFG(fn, prog)
    fl = Flow(cfg)

    def err_test(c: ast.expr, pol: bool, subj: str) -> Optional[bool]:
        """Does the guard (c, pol) establish that `subj` is an error response (True) / a success (False)?"""
        k = classify_cond(prog, fn, c)
        val: Optional[bool] = None
        if k.kind == 'truthy' and k.subject in (f'{subj}.error', f'{subj}.is_error'):
            val = not k.negated
        elif k.kind == 'truthy' and k.subject == f'{subj}.is_success':
            val = k.negated
        elif k.kind in ('is-unset', 'is-none') and k.subject == f'{subj}.error':
            val = k.negated
        if val is None:
            return None
        return val if pol else not val

    def is_code(e: ast.expr) -> Optional[str]:
        d = dotted(e)
        if d and d.endswith('.error.code'):
            return d[:-len('.error.code')]
        if isinstance(e, ast.Attribute) and e.attr == 'code' and isinstance(e.value, ast.Call) and \
                isinstance(e.value.func, ast.Attribute) and e.value.func.attr == 'get_error':
            return dotted(e.value.func.value)
        return None

    def check_leaf(leaf: ast.expr, guards, subj: Optional[str]) -> None:
        nonlocal n_codes
        n_codes += 1
        s_ = is_code(leaf)
        if s_ is not None:
            if subj is not None and s_ != subj:
                problems.append(f'code `{norm(leaf)}` is read from `{s_}`, not from the response `{subj}` the entry stands for')
            elif not any(err_test(c, p, s_) is True for c, p in guards):
                problems.append(f'`{norm(leaf)}` is read without establishing that `{s_}` carries an error')
            return
        if isinstance(leaf, ast.Constant) and leaf.value == 0 and not isinstance(leaf.value, bool):
            if subj is None or not any(err_test(c, p, subj) is False for c, p in guards):
                problems.append(f'0 is reported although nothing established that `{subj}` is a success')
            return
        problems.append(f'element `{norm(leaf)[:80]}` is neither "<resp>.error.code" nor 0')

    from ..flow import _expand_ifexp
    for n in cfg.stmt_nodes():
        st = n.ast
        if n.kind != 'stmt' or not isinstance(st, ast.Return) or st.value is None:
            continue
        for sq in fl.seq(n, st.value):
            if sq.kind == 'literal':
                in_batch = False
                for c_, pol_ in sq.guards:
                    k_ = classify_cond(prog, fn, c_)
                    if k_.kind == 'isinstance' and k_.subject == param and 'Batch' in k_.detail and pol_ != k_.negated:
                        in_batch = True
                for el in sq.elts:
                    for a in _expand_ifexp(el):
                        if in_batch and is_code(a.expr) is None:
                            n_codes += 1
                            problems.append(f'a batch response is summarised by the fixed tuple `({norm(a.expr)},)`: unless the batch itself '
                                            f'carries an error there must be one code per element response')
                            continue
                        check_leaf(a.expr, sq.guards + a.guards, param)
            elif sq.kind == 'iter':
                tgt = dotted(sq.target) if sq.target is not None else None
                if dotted(sq.iter) != param or not sq.total or sq.reordered or tgt is None:
                    problems.append(f'codes of a batch must be computed for every element of `{param}` in order, found '
                                    f'`{sq.text()[:100]}`')
                for a in sq.elt:
                    check_leaf(a.expr, a.guards + sq.filters, tgt)
                # a batch response can itself be one error object (no elements): then the document is that error and its code is
                # the one code — the per-element tuple is what is returned only when the batch carries no error of its own
                if dotted(sq.iter) == param and not any(err_test(c, p, param) is False for c, p in sq.guards):
                    problems.append(f'the per-element codes `{sq.text()[:70]}` are returned without establishing that `{param}` carries no '
                                    f'error of its own: a batch-level error (BatchResponse(error=…), serialised as one error object) is reported '
                                    f'with the empty tuple')
            else:
                problems.append(f'return value `{norm(sq.expr)[:60] if sq.expr is not None else "?"}` is not a tuple of codes')
    ok = not problems and n_codes >= 2
    ck.ob('CODES-SHAPE', f'{short(fn.qualname)}: one code per response object, 0 for a success', ok,
          sample={'code_expressions': n_codes})
    for p in problems:
        ck.finding('CODES-SHAPE', fn.qualname, p[:60], fn.module.rel, fn.node.lineno,
                   'error codes do not agree with the document: ' + p)
    if not problems and n_codes < 2:
        raise AnalysisError(f'{fn.qualname}: code-extraction shape not recognised')


def _batch_to_json(ck: Check, prog: Program) -> None:
    from ..flow import Flow
    f = prog.func(V20 + '.BatchResponse.to_json')
    ck.functions.add(f.qualname)
    cfg = CFG(f, prog)
    fl = Flow(cfg)
    problems = []
    list_ret = 0
    for n in cfg.stmt_nodes():
        a = n.ast
        if n.kind == 'stmt' and isinstance(a, ast.Return) and a.value is not None:
            for sq in fl.seq(n, a.value):
                if sq.kind != 'iter':
                    continue
                list_ret += 1
                tgt = dotted(sq.target) if sq.target is not None else None
                elt_ok = bool(sq.elt) and all(
                    isinstance(x.expr, ast.Call) and isinstance(x.expr.func, ast.Attribute) and x.expr.func.attr == 'to_json'
                    and dotted(x.expr.func.value) == tgt and not x.expr.args for x in sq.elt)
                if not sq.total or sq.reordered or not elt_ok or tgt is None:
                    problems.append((n.line, f'batch wire form `{sq.text()[:80]}` is not the list of every element\'s to_json() in storage order'))
    ok = not problems and list_ret >= 1
    ck.ob('WIRE-SHAPE', 'BatchResponse.to_json: list of each element\'s wire form, in storage order', ok)
    for line, msg in problems:
        ck.finding('WIRE-SHAPE', f.qualname, 'batch list form', f.module.rel, line, msg)
    if not problems and list_ret == 0:
        raise AnalysisError(f'{f.qualname}: list-building return not recognised')


# ---- mutants for the sensitivity battery (see mutate.py) ---------------------------------------------
MUTANTS = [
    dict(name='validation-error-passed-as-error-code', file='pjrpc/server/dispatcher.py', nth=1,
         find='raise pjrpc.exceptions.InvalidParamsError(data=e) from e', replace='raise pjrpc.exceptions.InvalidParamsError(e) from e', expect='ERROR-SHAPE'),
    dict(name='drop-IdentityError-handler', file='pjrpc/server/dispatcher.py',
         find='except (pjrpc.exceptions.DeserializationError, pjrpc.exceptions.IdentityError) as e:',
         replace='except pjrpc.exceptions.DeserializationError as e:', expect='ESC-DISPATCH', nth=1),
    dict(name='narrow-catch-all', file='pjrpc/server/dispatcher.py',
         find='        except Exception as e:\n            logger.exception("internal server error: %r", e)',
         replace='        except ValueError as e:\n            logger.exception("internal server error: %r", e)', expect=['CATCH-ALL', 'ESC-DISPATCH'], nth=0),
    dict(name='result-truthiness-in-to_json', file='pjrpc/common/v20.py',
         find='        if self._result is not UNSET:\n            json_data.update(result=self.result)',
         replace='        if self._result:\n            json_data.update(result=self.result)', expect='WIRE-SHAPE'),
    dict(name='codes-from-other-object', file='pjrpc/server/dispatcher.py',
         find='return response_text, extract_error_codes(response)',
         replace='return response_text, extract_error_codes(request)', expect='CODES-SAME-OBJ', nth=1),
    dict(name='codes-skip-success', file='pjrpc/server/dispatcher.py',
         find='tuple(r.error.code if r.error else 0 for r in response)',
         replace='tuple(r.error.code for r in response if r.error)', expect='CODES-SHAPE'),
    dict(name='response-with-both', file='pjrpc/server/dispatcher.py',
         find='return self._response_class(id=request.id, error=error)',
         replace='return self._response_class(id=request.id, result=None, error=error)', expect=['ESC-DISPATCH', 'CATCH-ALL'], all=True),
    dict(name='request-id-bool-accepted', file='pjrpc/common/v20.py', nth=1,
         find="if id is not None and (isinstance(id, bool) or not isinstance(id, (int, str))):", replace="if id is not None and not isinstance(id, (int, str)):",
         expect=['JSON-BOOL', 'FIELD-GUARD']),
    dict(name='error-ctor-truthiness', file='pjrpc/common/exceptions.py', find='self.code = code if code is not None else self.code',
         replace='self.code = code or self.code', expect='ERROR-SHAPE'),
    dict(name='codes-fixed-zero-for-clean-batch', file='pjrpc/server/dispatcher.py',
         find='        return (response.error.code,) if response.error else tuple(r.error.code if r.error else 0 for r in response)',
         replace='        if response.error:\n            return (response.error.code,)\n        if not response.has_error:\n            return (0,)\n        return tuple(r.error.code if r.error else 0 for r in response)',
         expect='CODES-SHAPE'),
]
