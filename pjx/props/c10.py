"""C10 — concurrent batches cannot mix up responses; sequential mode is sequential."""
from __future__ import annotations

import ast
from typing import List, Set

from ..cfg import CFG
from ..effects import Effects
from ..model import AnalysisError, ClassInfo, FuncInfo, Program, dotted, norm
from ..report import Check
from ..types import FuncScope, types_of, walk_own
from ..util import calls_in, classify_cond, guard_edges, node_exprs, short, walk_no_defs
from . import c01
from .common import dispatchers
from .dfacts import CONCURRENT_JOIN, batch_facts, notif_facts


def run(ck: Check, prog: Program) -> None:
    from .common import dispatcher_program
    prog = dispatcher_program(prog)
    roles = [r for r in dispatchers(prog)]
    ars = [r for r in roles if r.dispatch.is_async]
    if len(ars) != 1:
        raise AnalysisError(f'expected one asynchronous dispatcher, found {len(ars)}')
    r = ars[0]
    ck.explain('Non-interference argument instead of schedule enumeration: the call tree under the asynchronous per-element handler '
               'writes no state shared between elements (effect analysis), each response is built from its own request parameter '
               '(ID-ECHO) and the join that collects the element results is order-preserving by contract (asyncio.gather / a '
               'sequential comprehension), so no interleaving can exchange ids, results or errors. Sequential mode: every '
               'constructor flag stored on the dispatcher is read; the batch branch tests the concurrency flag and its false side '
               'awaits the handler element by element without any task-spawning combinator.')
    ck.assume('asyncio.gather returns results in the order of its arguments (documented contract)')
    ck.assume('user methods / middlewares / error handlers share no state of their own between elements')
    ck.not_decided.append('the schedules themselves are not enumerated; the argument is non-interference + order-preserving join')
    interp = c01.make_interp(prog, roles)
    eff = Effects(prog, [r.handle_request], [r.cls])
    ck.functions |= set(eff.tree)
    ck.require('NONINTERF', 'functions under the async per-element handler', len(eff.tree), 10)
    ws = eff.shared_writes()
    rs = [t for t in eff.retentions() if not t.sink.startswith('cache key')]
    ck.ob('NONINTERF', f'the per-element handler tree ({len(eff.tree)} functions) writes no state shared between batch elements', not ws and not rs,
          sample={'functions': sorted(short(q) for q in eff.tree)})
    for w in ws:
        ck.finding('NONINTERF', w.func.qualname, f'shared write: {w.text[:50]}', w.func.module.rel, w.line,
                   f'`{w.text}` writes {w.target} while other elements of the same batch may be suspended: interleaved elements can '
                   f'observe or overwrite each other\'s data')
    for t in rs:
        ck.finding('NONINTERF', t.func.qualname, f'per-element value stored in shared state: {t.text[:40]}', t.func.module.rel, t.line,
                   f'`{t.text}` stores a per-element value into {t.sink}')
    # a memo keyed by the CLIENT'S ARGUMENTS hands one element the object computed for another whose arguments merely compare equal
    # (1 == True == 1.0, 0 == False): the elements are no longer answered independently
    keyed = [t for t in eff.retentions() if t.sink.startswith('cache key') and 'params' in str(getattr(t, 'value', '') or t.text).split('(per-request')[0]]
    ck.ob('NONINTERF', 'no memoised function under the per-element handler is keyed by the request parameters', not keyed)
    for t in keyed:
        ck.finding('NONINTERF', t.func.qualname, f'memo keyed by the request parameters: {t.text[:40]}', t.func.module.rel, t.line,
                   f'`{t.text}` looks the result up in a cache whose key contains the client\'s arguments ({t.sink}): arguments that compare equal '
                   f'without being the same JSON value (1, true, 1.0) share one cached result, so an element of a batch — or a later request — is '
                   f'answered with what was computed for another one')
    from .dfacts import method_call_facts
    _, mprob = method_call_facts(prog, interp, r)
    badm = [p for p in mprob if p[0] == 'ONCE-INVOKE']
    ck.ob('PER-ELEMENT-ONCE', 'the method of every element runs exactly once (a coroutine it returns is awaited whenever there is one)', not badm)
    for rule, construct, line, msg in badm:
        ck.finding('PER-ELEMENT-ONCE', r.handle_rpc_method.qualname, construct, r.dispatch.module.rel, line, msg)
    facts, problems = batch_facts(prog, r)
    bad = [p for p in problems if p[0] in ('ORDER-MAP', 'PER-ELEMENT-ONCE', 'FILTER-UNSET')]
    ck.ob('ORDER-MAP', 'the join of the element handlers preserves request order', not bad, sample={'facts': facts})
    for rule, construct, line, msg in bad:
        ck.finding(rule, r.dispatch.qualname, construct, r.dispatch.module.rel, line, msg)
    nf, nproblems = notif_facts(prog, interp, r)
    badn = [p for p in nproblems if p[0] == 'ID-ECHO']
    ck.ob('ID-ECHO', 'each response is built from the id of its own request parameter', not badn)
    for rule, construct, line, msg in badn:
        ck.finding(rule, r.handle_request.qualname, construct, r.dispatch.module.rel, line, msg)
    _flag_live(ck, prog, roles)
    _seq_mode(ck, prog, r)


def _flag_live(ck: Check, prog: Program, roles) -> None:
    """Every constructor parameter stored on self is read somewhere."""
    seen: Set[str] = set()
    n = 0
    for r in roles:
        for c in prog.mro(r.cls):
            if not isinstance(c, ClassInfo) or c.qualname in seen:
                continue
            seen.add(c.qualname)
            init = c.methods.get('__init__')
            if init is None:
                continue
            params = {p.arg for p in init.params[1:]}
            for st in walk_own(init.node):
                if isinstance(st, ast.Assign) and len(st.targets) == 1 and isinstance(st.targets[0], ast.Attribute) and \
                        dotted(st.targets[0].value) == 'self' and any(isinstance(x, ast.Name) and x.id in params for x in ast.walk(st.value)):
                    attr = st.targets[0].attr
                    n += 1
                    reads = 0
                    for f in prog.iter_funcs():
                        for x in walk_own(f.node):
                            if isinstance(x, ast.Attribute) and x.attr == attr and isinstance(x.ctx, ast.Load):
                                reads += 1
                    ck.ob('FLAG-LIVE', f'{c.name}.{attr} (constructor option) is read', reads > 0, nontrivial=False)
                    if reads == 0:
                        ck.finding('FLAG-LIVE', init.qualname, f'constructor option stored in self.{attr} is never read', init.module.rel, st.lineno,
                                   f'`{norm(st)}`: the option is stored and never consulted, so it cannot have any effect '
                                   f'(e.g. switching concurrent batch execution off changes nothing)')
    ck.require('FLAG-LIVE', 'constructor options', n, 10)
    # ... and every option a dispatcher constructor accepts on behalf of its base class reaches it
    from .common import ctor_forwarding
    for r in roles:
        fwd, probs = ctor_forwarding(prog, r.cls)
        ck.ob('FLAG-LIVE', f'{r.cls.name}.__init__ hands {len(fwd)} options to the base constructor, none is dropped', not probs, sample={'forwarded': fwd})
        for line, msg in probs:
            ck.finding('FLAG-LIVE', r.cls.qualname + '.__init__', msg[:70], r.cls.module.rel, line, msg)


DETACHING = {'asyncio.ensure_future', 'asyncio.create_task', 'asyncio.get_event_loop.create_task', 'asyncio.get_running_loop.create_task',
             'asyncio.run_coroutine_threadsafe', 'asyncio.tasks.ensure_future', 'asyncio.tasks.create_task'}


def _seq_mode(ck: Check, prog: Program, r) -> None:
    f = r.dispatch
    ty = types_of(prog)
    sc = FuncScope(f, ty)
    cfg = CFG(f, prog)
    # the flag attribute: stored from a bool constructor parameter named like concurrency
    init = r.init
    flag_attr = None
    for st in walk_own(init.node):
        if isinstance(st, ast.Assign) and isinstance(st.targets[0], ast.Attribute) and dotted(st.targets[0].value) == 'self' and \
                isinstance(st.value, ast.Name) and 'concurrent' in st.value.id:
            flag_attr = st.targets[0].attr
    if flag_attr is None:
        raise AnalysisError(f'{init.qualname}: no concurrency option found')
    conds = [n for n in cfg.nodes if n.kind == 'cond' and classify_cond(prog, f, n.ast).subject == f'self.{flag_attr}'
             and classify_cond(prog, f, n.ast).kind == 'truthy']
    # also conditional expressions on the flag
    ifexps = [x for x in walk_own(f.node) if isinstance(x, ast.IfExp) and classify_cond(prog, f, x.test).subject == f'self.{flag_attr}']
    slot = f'self.{r.slot}'
    ok = False
    msgs: List[str] = []
    if not conds and not ifexps:
        msgs.append(f'dispatch never tests self.{flag_attr}: with concurrent batch execution switched off the elements are still run concurrently')
    for c in conds:
        ckd = classify_cond(prog, f, c.ast)
        seq_edges = [e for e in cfg.succ[c.id] if e.label in ('T', 'F') and (e.label == 'F') != ckd.negated]
        conc_edges = [e for e in cfg.succ[c.id] if e.label in ('T', 'F') and (e.label == 'T') != ckd.negated]
        seq_nodes = set()
        for e in seq_edges:
            other = set()
            for e2 in conc_edges:
                other |= cfg.reachable(e2.dst) | {e2.dst.id}
            seq_nodes |= (cfg.reachable(e.dst) | {e.dst.id}) - other
        seq_calls = []
        for nid in seq_nodes:
            n = cfg.nodes[nid]
            for call in calls_in(n):
                if dotted(call.func) == slot:
                    seq_calls.append((n, call))
                for k, o in ty.callees(call, sc):
                    if k == 'ext' and str(o) in CONCURRENT_JOIN:
                        msgs.append(f'line {n.line}: `{norm(call)[:70]}` spawns/join tasks on the sequential side of the flag')
        # nothing that spawns tasks may be reachable once the flag is known to be off
        for e in seq_edges:
            for nid in cfg.reachable(e.dst) | {e.dst.id}:
                n2 = cfg.nodes[nid]
                for call in calls_in(n2):
                    for k, o in ty.callees(call, sc):
                        if k == 'ext' and str(o) in CONCURRENT_JOIN:
                            m = (f'line {n2.line}: `{norm(call)[:70]}` is reachable with concurrent batch execution switched off '
                                 f'(via `{norm(c.ast)}` false): some batches are still run concurrently')
                            if m not in msgs:
                                msgs.append(m)
        if not seq_calls:
            msgs.append('the sequential side of the flag does not run the element handler')
        for n, call in seq_calls:
            awaited = any(isinstance(x, ast.Await) and x.value is call for frag in node_exprs(n) for x in walk_no_defs(frag))
            if not awaited:
                msgs.append(f'line {n.line}: `{norm(call)}` is not awaited before the next element starts (coroutines collected, not run in order)')
        if seq_calls and not msgs:
            ok = True
    # an element is finished when its handler returns: nothing of its work (method, middlewares, error handlers) may be handed to a
    # task that outlives the handler call — it would run interleaved with the next element, or after dispatch has answered
    for g in r.chain:
        if g is f:
            continue
        sg = FuncScope(g, ty)
        for x in walk_own(g.node):
            if not isinstance(x, ast.Call):
                continue
            for k, o in ty.callees(x, sg):
                if k == 'ext' and str(o) in DETACHING:
                    msgs.append(f'{short(g.qualname)} line {x.lineno}: `{norm(x)[:70]}` schedules part of an element\'s work as a separate task: the '
                                f'element is reported done while that work is still pending, so with concurrent batch execution switched off '
                                f'two elements are in flight at once (and the order of effects is not the request order)')
    ck.ob('SEQ-MODE', 'with concurrent_batch off the elements are awaited one by one, in request order, with no task combinator', ok and not msgs,
          sample={'flag': flag_attr, 'tests_of_the_flag': len(conds) + len(ifexps)})
    for m in msgs:
        ck.finding('SEQ-MODE', f.qualname, m[:70], f.module.rel, f.node.lineno, m)


MUTANTS = [
    dict(name='error-handlers-of-notifications-detached', file='pjrpc/server/dispatcher.py', nth=1,
         find='        if request.id is None:\n            return UNSET\n\n        return self._response_class(id=request.id, error=error)',
         replace='        if request.id is None:\n            asyncio.ensure_future(self._noop(request))\n            return UNSET\n\n'
                 '        return self._response_class(id=request.id, error=error)', expect='SEQ-MODE'),
    dict(name='current-request-on-self', file='pjrpc/server/dispatcher.py',
         find='        result = await self._handle_rpc_method(request.method, request.params, context)\n',
         replace='        self._current = request\n        result = await self._handle_rpc_method(self._current.method, self._current.params, context)\n',
         expect='NONINTERF'),
    dict(name='module-scratch-list', file='pjrpc/server/dispatcher.py', nth=1,
         find='            bound_method = method.bind(params, context=context)\n', replace='            _scratch.append(params)\n            bound_method = method.bind(_scratch.pop(), context=context)\n',
         also=[dict(file='pjrpc/server/dispatcher.py', find='default_validator = validators.base.BaseValidator()\n',
                    replace='default_validator = validators.base.BaseValidator()\n_scratch: list = []\n')], expect='NONINTERF'),
    dict(name='as-completed-join', file='pjrpc/server/dispatcher.py',
         find='await asyncio.gather(*(self._request_handler(req, context) for req in request))',
         replace='[await c for c in asyncio.as_completed([self._request_handler(req, context) for req in request])]', expect='ORDER-MAP'),
    dict(name='gather-on-both-sides', file='pjrpc/server/dispatcher.py',
         find='results = [await self._request_handler(req, context) for req in request]',
         replace='results = await asyncio.gather(*[self._request_handler(req, context) for req in request])', expect='SEQ-MODE'),
    dict(name='sequential-side-not-awaited-in-order', file='pjrpc/server/dispatcher.py',
         find='results = [await self._request_handler(req, context) for req in request]',
         replace='coros = [self._request_handler(req, context) for req in request]\n                        results = [await c for c in asyncio.as_completed(coros)]',
         expect=['SEQ-MODE', 'ORDER-MAP']),
    dict(name='reintroduce-D10-flag-dead', file='pjrpc/server/dispatcher.py',
         find='                    if self._concurrent_batch:\n                        results = await asyncio.gather(*(self._request_handler(req, context) for req in request))\n                    else:\n                        results = [await self._request_handler(req, context) for req in request]\n',
         replace='                    results = await asyncio.gather(*(self._request_handler(req, context) for req in request))\n',
         expect=['FLAG-LIVE', 'SEQ-MODE']),
    dict(name='flag-inverted', file='pjrpc/server/dispatcher.py', find='                    if self._concurrent_batch:\n', replace='                    if not self._concurrent_batch:\n',
         expect='SEQ-MODE'),
    dict(name='results-reversed', file='pjrpc/server/dispatcher.py', find='responses = [resp for resp in results if resp]',
         replace='responses = [resp for resp in results[::-1] if resp]', expect='ORDER-MAP'),
]
