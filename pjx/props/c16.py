"""C16 — generated OpenAPI/OpenRPC documents are closed, complete and pure (structural clauses)."""
from __future__ import annotations

import ast
from typing import Dict, List, Optional, Set, Tuple

from ..cfg import CFG, Node
from ..effects import MUTATORS
from ..model import AnalysisError, ClassInfo, FuncInfo, Program, dotted, norm
from ..report import Check
from ..types import FuncScope, members, types_of, walk_own
from ..util import assigned_names, calls_in, classify_cond, guard_edges, is_unset_expr, node_exprs, short, walk_no_defs

OPENAPI = 'pjrpc.server.specs.openapi.OpenAPI'
OPENRPC = 'pjrpc.server.specs.openrpc.OpenRPC'
BASE_EXTRACTOR = 'pjrpc.server.specs.extractors.BaseSchemaExtractor'

DEEP, SHALLOW, BORROWED = 'fresh', 'fresh-shell', 'borrowed'
FRESH_SHELL_CALLS = {'list', 'dict', 'set', 'tuple', 'sorted', 'copy.copy', 'frozenset', 'reversed'}
ELEMENT_METHODS = {'get', 'pop', 'values', 'items', 'keys', 'setdefault', 'popitem', '__getitem__'}


class Borrow:
    """Is the object denoted by an expression fresh (created during generation) or borrowed
    (method metadata, annotation lists, generator state, objects the user passed in)?"""

    def __init__(self, prog: Program, funcs: List[FuncInfo], entry: FuncInfo):
        self.prog = prog
        self.ty = types_of(prog)
        self.funcs = {f.qualname: f for f in funcs}
        self.entry = entry
        self.sites: Dict[str, List[Tuple[FuncInfo, ast.Call]]] = {}
        for f in funcs:
            sc = FuncScope(f, self.ty)
            for x in walk_own(f.node):
                if isinstance(x, ast.Call):
                    for k, o in self.ty.callees(x, sc):
                        if k == 'func' and isinstance(o, FuncInfo):
                            self.sites.setdefault(o.qualname, []).append((f, x))
        self._busy: Set[Tuple[str, str]] = set()

    def level(self, e: ast.expr, f: FuncInfo, depth: int = 0) -> Tuple[str, str]:
        """(level, reason)."""
        if depth > 14:
            return BORROWED, 'analysis depth'
        if isinstance(e, (ast.Constant, ast.JoinedStr)):
            return DEEP, 'literal'
        if isinstance(e, (ast.List, ast.Tuple, ast.Set, ast.Dict)):
            elts = getattr(e, 'elts', None)
            if elts is None:
                elts = [v for v in e.values]
            if not elts:
                return DEEP, 'empty literal'
            lv = [self.level(x.value if isinstance(x, ast.Starred) else x, f, depth + 1) for x in elts if x is not None]
            return (DEEP, 'literal of fresh values') if all(l[0] == DEEP for l in lv) else (SHALLOW, 'literal holding borrowed values')
        if isinstance(e, (ast.ListComp, ast.SetComp, ast.DictComp, ast.GeneratorExp)):
            return SHALLOW, 'comprehension'
        if isinstance(e, ast.Await):
            return self.level(e.value, f, depth + 1)
        if isinstance(e, ast.BoolOp):
            lv = [self.level(v, f, depth + 1) for v in e.values]
            worst = max(lv, key=lambda l: (l[0] == BORROWED, l[0] == SHALLOW))
            return worst
        if isinstance(e, ast.IfExp):
            lv = [self.level(e.body, f, depth + 1), self.level(e.orelse, f, depth + 1)]
            return max(lv, key=lambda l: (l[0] == BORROWED, l[0] == SHALLOW))
        if isinstance(e, ast.NamedExpr):
            return self.level(e.value, f, depth + 1)
        if isinstance(e, ast.Name):
            return self._name(e.id, f, depth)
        if isinstance(e, (ast.Attribute, ast.Subscript)):
            if isinstance(e, ast.Attribute) and dotted(e.value) == 'self':
                return BORROWED, f'generator state self.{e.attr}'
            b = self.level(e.value, f, depth + 1)
            if b[0] == DEEP:
                return DEEP, f'part of {b[1]}'
            return BORROWED, f'element/attribute of {b[1]}'
        if isinstance(e, ast.Call):
            d = None
            if isinstance(e.func, (ast.Name, ast.Attribute)):
                ent = self.prog.resolve(f.module, e.func) if self.ty.local_type(f, (dotted(e.func) or '?').split('.')[0]) is None else None
                d = ent if isinstance(ent, str) else None
            if d == 'copy.deepcopy':
                return DEEP, 'deep copy'
            if d in FRESH_SHELL_CALLS or d == 'dataclasses.asdict':
                if d == 'dataclasses.asdict':
                    return DEEP, 'asdict copy'
                if e.args:
                    b = self.level(e.args[0], f, depth + 1)
                    return (DEEP, 'copy of fresh') if b[0] == DEEP else (SHALLOW, f'shallow copy of {b[1]}')
                return DEEP, 'fresh container'
            if d == 'getattr' and e.args:
                b = self.level(e.args[0], f, depth + 1)
                return (DEEP, b[1]) if b[0] == DEEP else (BORROWED, f'attribute of {b[1]}')
            if isinstance(e.func, ast.Attribute) and e.func.attr in ELEMENT_METHODS:
                b = self.level(e.func.value, f, depth + 1)
                lv = [b if b[0] == DEEP else (BORROWED, f'element of {b[1]}')]
                for a in e.args[1:]:
                    lv.append(self.level(a, f, depth + 1))
                return max(lv, key=lambda l: (l[0] == BORROWED, l[0] == SHALLOW))
            sc = FuncScope(f, self.ty)
            tg = self.ty.callees(e, sc)
            lv = []
            for k, o in tg:
                if k == 'func' and isinstance(o, FuncInfo):
                    lv.append(self._returns(o, e, f, depth))
                elif k == 'ctor':
                    lv.append((DEEP, 'constructed object') if all(
                        self.level(a.value if isinstance(a, ast.Starred) else a, f, depth + 1)[0] == DEEP
                        for a in list(e.args) + [kw.value for kw in e.keywords]) else (SHALLOW, 'object holding borrowed values'))
                else:
                    lv.append((DEEP, 'result of an external call'))
            if not lv:
                return DEEP, 'result of a call'
            return max(lv, key=lambda l: (l[0] == BORROWED, l[0] == SHALLOW))
        return DEEP, 'computed value'

    def _returns(self, callee: FuncInfo, call: ast.Call, caller: FuncInfo, depth: int) -> Tuple[str, str]:
        key = (callee.qualname, 'ret')
        if key in self._busy:
            return DEEP, 'recursive call'
        self._busy.add(key)
        try:
            rets = [st.value for st in walk_own(callee.node) if isinstance(st, ast.Return) and st.value is not None]
            if not rets:
                return DEEP, 'no value'
            # evaluate the returned expressions in the callee; parameters resolve through this call's arguments
            lv = []
            for r in rets:
                lv.append(self.level(r, callee, depth + 1))
            return max(lv, key=lambda l: (l[0] == BORROWED, l[0] == SHALLOW))
        finally:
            self._busy.discard(key)

    def _name(self, name: str, f: FuncInfo, depth: int) -> Tuple[str, str]:
        g: Optional[FuncInfo] = f
        while g is not None:
            if any(p.arg == name for p in g.params):
                if name in ('self', 'cls'):
                    return BORROWED, 'the generator object'
                if g is self.entry:
                    return BORROWED, f'object passed in by the user ({name})'
                sites = self.sites.get(g.qualname, [])
                key = (g.qualname, name)
                if not sites or key in self._busy:
                    return BORROWED, f'parameter {name} of {g.name}'
                self._busy.add(key)
                try:
                    lv = []
                    for caller, call in sites:
                        arg = self._arg_for(g, call, name)
                        if arg is None:
                            d = g.param_default(name)
                            lv.append((DEEP, 'default') if d is None or isinstance(d, ast.Constant) else (BORROWED, f'shared mutable default of {name}'))
                        else:
                            lv.append(self.level(arg, caller, depth + 1))
                    return max(lv, key=lambda l: (l[0] == BORROWED, l[0] == SHALLOW))
                finally:
                    self._busy.discard(key)
            vals: List[Tuple[ast.expr, bool]] = []
            for st in walk_own(g.node):
                if isinstance(st, ast.Assign):
                    for tg in st.targets:
                        if isinstance(tg, ast.Name) and tg.id == name:
                            vals.append((st.value, False))
                        elif isinstance(tg, (ast.Tuple, ast.List)):
                            for i, el in enumerate(tg.elts):
                                if isinstance(el, ast.Name) and el.id == name:
                                    if isinstance(st.value, (ast.Tuple, ast.List)) and len(st.value.elts) == len(tg.elts):
                                        vals.append((st.value.elts[i], False))
                                    else:
                                        vals.append((st.value, True))
                elif isinstance(st, ast.AnnAssign) and isinstance(st.target, ast.Name) and st.target.id == name and st.value is not None:
                    vals.append((st.value, False))
                elif isinstance(st, (ast.For, ast.AsyncFor, ast.comprehension)) and any(
                        isinstance(x, ast.Name) and x.id == name for x in ast.walk(st.target)):
                    vals.append((st.iter, True))
                elif isinstance(st, ast.NamedExpr) and st.target.id == name:
                    vals.append((st.value, False))
            if vals:
                lv = []
                for v, element in vals:
                    l = self.level(v, g, depth + 1)
                    if element and l[0] != DEEP:
                        l = (BORROWED, f'element of {l[1]}')
                    lv.append(l)
                return max(lv, key=lambda l: (l[0] == BORROWED, l[0] == SHALLOW))
            g = g.parent
        return BORROWED, f'module-level object {name}'

    @staticmethod
    def _arg_for(callee: FuncInfo, call: ast.Call, pname: str) -> Optional[ast.expr]:
        for kw in call.keywords:
            if kw.arg == pname:
                return kw.value
        a = callee.node.args
        pos = [p.arg for p in (list(a.posonlyargs) + list(a.args))]
        if callee.cls is not None and callee.parent is None and pos and pos[0] in ('self', 'cls'):
            pos = pos[1:]
        if pname in pos:
            i = pos.index(pname)
            if i < len(call.args) and not any(isinstance(x, ast.Starred) for x in call.args[:i + 1]):
                return call.args[i]
        return None


def generator_funcs(prog: Program, ci: ClassInfo) -> List[FuncInfo]:
    dead = prog.__dict__.get('dead_helpers', set())      # new helpers whose every call site was inlined (normal.py)
    own = [m for m in ci.methods.values() if (m.name == 'schema' or m.name.startswith('_extract') or m.name.startswith('_build'))
           and m.qualname not in dead]
    # plus the module-level helpers of pjrpc.server.specs they (or the extractors) call: build_request_schema, build_response_schema, …
    ty = types_of(prog)
    seen = {f.qualname for f in own}
    out = list(own)
    work = list(own)
    ext = prog.classes.get(BASE_EXTRACTOR)
    if ext is not None:
        for ec in prog.subclasses(ext):
            work += [m for m in ec.methods.values() if m.name.startswith('extract_')]
    while work:
        f = work.pop()
        sc = FuncScope(f, ty)
        for x in walk_own(f.node):
            if isinstance(x, ast.Call):
                for k, o in ty.callees(x, sc):
                    if k == 'func' and isinstance(o, FuncInfo) and o.cls is None and o.module.name.startswith('pjrpc.server.specs') \
                            and o.qualname not in seen:
                        seen.add(o.qualname)
                        out.append(o)
                        work.append(o)
    return out


def run(ck: Check, prog: Program) -> None:
    ck.explain('Purity by a borrowed/fresh provenance analysis over the spec generators (no mutating operation on method metadata, '
               'annotation lists, generator state or user-passed objects; the template is deep-copied); loop-carried-dependence '
               'analysis of the per-method loops (no local defined in iteration i is live into iteration i+1); completeness of the '
               'loop (no skip, exactly one entry stored per method under its exposed name); closure of $ref prefixes with the keys '
               'under which components are registered; interface-shape agreement between every extractor implementation and the '
               'constant subscripts the generators apply to extractor results.')
    ck.assume('schemas returned by pydantic (model_json_schema) are fresh objects owned by the caller')
    ck.not_decided += ['JSON-encodability and meta-schema validity of the generated documents (values produced by pydantic / dataclasses)',
                       'dangling $ref inside schemas produced by third-party code']
    for cq in (OPENAPI, OPENRPC):
        ci = prog.cls(cq)
        funcs = generator_funcs(prog, ci)
        schema = ci.methods.get('schema')
        if schema is None:
            raise AnalysisError(f'{cq}.schema not found')
        ck.functions |= {f.qualname for f in funcs}
        ck.require('PURE-BORROW', f'generator helper functions of {ci.name}', len(funcs), 8)
        _pure_borrow(ck, prog, ci, funcs, schema)
        _loop_rules(ck, prog, ci, schema)
        _ref_closed(ck, prog, ci, funcs)
        _template_copy(ck, prog, ci, schema)
    _iface_shape(ck, prog)
    _encodable(ck, prog)
    _none_leak(ck, prog)
    _gen_stateless(ck, prog)
    _meta_not_lazy(ck, prog)
    _gen_total(ck, prog)
    _name_source(ck, prog)
    from .c16b import reference_key, schema_templates
    schema_templates(ck, prog)
    reference_key(ck, prog)
    from .totality import encoder_default
    encoder_default(ck, prog, 'pjrpc.server.specs.JSONEncoder', ['enum.Enum'],
                    why='the specification dataclasses accept enumeration members (in examples, in: / type: fields); the document is '
                        'encoded with this encoder by every integration, and an Enum member the encoder does not unwrap makes '
                        'json.dumps raise TypeError')


EXTRACTORS_PKG = 'pjrpc.server.specs.extractors'


def _gen_stateless(ck: Check, prog: Program) -> None:
    """GEN-STATELESS: generation is a function of the registry alone — nothing in the call tree of schema() (generator, extractors,
    helpers) writes state that outlives the call (instance / class / module state): a cache filled during one generation changes
    what the next generation, or another method's entry, contains."""
    from ..effects import Effects
    for cq in (OPENAPI, OPENRPC):
        ci = prog.cls(cq)
        roots = [ci] + [c for c in prog.classes.values() if c.module.name.startswith(EXTRACTORS_PKG) and any(
            isinstance(b, ClassInfo) and b.qualname == BASE_EXTRACTOR for b in prog.mro(c))]
        eff = Effects(prog, [ci.methods['schema']], roots)
        ws = [w for w in eff.shared_writes() if w.target.split(':')[0] in ('self', 'module', 'class')]
        ck.ob('GEN-STATELESS', f'{ci.name}.schema: the generation call tree ({len(eff.tree)} functions) writes no instance / class / module state', not ws,
              sample={'functions': len(eff.tree)})
        for w in ws:
            ck.finding('GEN-STATELESS', w.func.qualname, f'{w.why} on {w.target.split(":")[0]} state: {w.text[:50]}', w.func.module.rel, w.line,
                       f'`{w.text}` writes state that outlives the generation ({w.target}): what is documented then depends on earlier '
                       f'generations / other methods (e.g. a model cached under a name is reused for a different function exposed under the same name)')


def _gen_total(ck: Check, prog: Program) -> None:
    """GEN-TOTAL: generation produces a document for every registry — the pieces that can make it raise or lose parts, as far as they
    are visible in the shape of the code:
      (a) every construction of a specification dataclass inside the specs package supplies all required fields (a missing one is a
          TypeError at generation time, for every registry that reaches the construction);
      (b) an optional sub-object that the code itself tests before use (`doc.returns`) is dereferenced only where that test held;
      (c) the accumulated component table is kept when it is extended (`table = table or {}`), and every declared error is given its
          schema / appended to the method's error list only when it is a known error class."""
    from ..types import FuncScope, types_of
    from ..cfg import CFG as _CFG
    ty = types_of(prog)
    n_ctor = 0
    for f in prog.iter_funcs():
        if not f.module.name.startswith('pjrpc.server.specs') or not isinstance(f.node, (ast.FunctionDef, ast.AsyncFunctionDef)):
            continue
        sc = FuncScope(f, ty)
        for x in walk_own(f.node):
            if not isinstance(x, ast.Call):
                continue
            try:
                tg = ty.callees(x, sc)
            except RecursionError:
                continue
            ctors = [o for k, o in tg if k == 'ctor' and isinstance(o, ClassInfo) and o.module.name.startswith('pjrpc.server.specs')]
            if len(ctors) != 1 or len(tg) != 1:
                continue
            ci = ctors[0]
            is_dc = any((dotted(d.func) if isinstance(d, ast.Call) else dotted(d)) in ('dc.dataclass', 'dataclasses.dataclass', 'dataclass')
                        for d in ci.node.decorator_list)
            if not is_dc or '__init__' in ci.methods:
                continue
            if any(isinstance(a, ast.Starred) for a in x.args) or any(k.arg is None for k in x.keywords):
                continue
            fields = []
            for c_ in reversed([c for c in prog.mro(ci) if isinstance(c, ClassInfo)]):
                for st in c_.node.body:
                    if isinstance(st, ast.AnnAssign) and isinstance(st.target, ast.Name) and 'ClassVar' not in norm(st.annotation):
                        fields = [(n_, r_) for n_, r_ in fields if n_ != st.target.id] + [(st.target.id, st.value is None)]
            n_ctor += 1
            given = {fields[i][0] for i in range(min(len(x.args), len(fields)))} | {k.arg for k in x.keywords}
            missing = [n_ for n_, req in fields if req and n_ not in given]
            unknown = [k.arg for k in x.keywords if k.arg not in {n_ for n_, _ in fields}]
            ck.ob('GEN-TOTAL', f'{short(f.qualname)}: {ci.name}(…) supplies every required field', not missing and not unknown)
            if missing or unknown:
                ck.finding('GEN-TOTAL', f.qualname, f'{ci.name}() built without {missing or unknown}', f.module.rel, x.lineno,
                           f'`{norm(x)[:80]}`: {ci.name} requires {missing}' + (f' and has no field {unknown}' if unknown else '') +
                           ': the call raises TypeError, so no document is generated for any registry that reaches it')
    ck.require('GEN-TOTAL', 'specification dataclass constructions in the specs package', n_ctor, 20)
    # (b) optional sub-objects
    n_opt = 0
    for f in prog.iter_funcs():
        if not f.module.name.startswith('pjrpc.server.specs.extractors') or not isinstance(f.node, (ast.FunctionDef, ast.AsyncFunctionDef)):
            continue
        cfg = _CFG(f, prog)
        tested = {}
        for c in cfg.nodes:
            if c.kind == 'cond':
                d = dotted(c.ast)
                if d and d.count('.') >= 1:
                    tested.setdefault(d, []).append(c)
        for d, conds in tested.items():
            for n in cfg.stmt_nodes():
                if n in conds:
                    continue
                derefs = [x for frag in node_exprs(n) for x in walk_no_defs(frag)
                          if isinstance(x, ast.Attribute) and dotted(x.value) == d and isinstance(x.ctx, ast.Load)]
                if not derefs:
                    continue
                n_opt += 1
                false_edges = [e for c in conds for e in cfg.succ[c.id] if e.label == 'F']
                # reachable although no test of `d` came out true: entry -> n avoiding the T edges
                true_edges = [e for c in conds for e in cfg.succ[c.id] if e.label == 'T']
                unguarded = n.id in cfg.reachable_consistent(cfg.entry, avoid_edges=true_edges)
                ck.ob('GEN-TOTAL', f'{short(f.qualname)}: `{d}.…` is read only where `{d}` was found set', not unguarded)
                if unguarded:
                    ck.finding('GEN-TOTAL', f.qualname, f'`{d}` dereferenced where it may be None', f.module.rel, n.line,
                               f'`{norm(derefs[0])}` at line {n.line} can be reached without `{d}` having been found set (the function tests `{d}` '
                               f'elsewhere, so it can be None): generation raises AttributeError for a docstring without that section')
    # (c) accumulated tables and error lists
    for f in prog.iter_funcs():
        if not f.module.name.startswith('pjrpc.server.specs') or not isinstance(f.node, (ast.FunctionDef, ast.AsyncFunctionDef)):
            continue
        for st in walk_own(f.node):
            if isinstance(st, ast.Assign) and len(st.targets) >= 1 and any(dotted(t) and dotted(t).endswith('.components.schemas') for t in st.targets):
                tgt = [dotted(t) for t in st.targets if dotted(t) and dotted(t).endswith('.components.schemas')][0]
                v = st.value
                ok_acc = isinstance(v, ast.BoolOp) and isinstance(v.op, ast.Or) and dotted(v.values[0]) == tgt and \
                    isinstance(v.values[-1], ast.Dict) and not v.values[-1].keys or isinstance(v, ast.Dict) and False
                if isinstance(v, ast.BoolOp):
                    ck.ob('REF-CLOSED', f'{short(f.qualname)}: the component table is kept when it is extended', bool(ok_acc))
                    if not ok_acc:
                        ck.finding('REF-CLOSED', f.qualname, f'component table replaced: {norm(st)[:50]}', f.module.rel, st.lineno,
                                   f'`{norm(st)[:90]}` does not keep the components registered so far (`{tgt} or {{}}`): the definitions contributed by '
                                   f'earlier methods are dropped while the $refs to them stay in the document')
    # declared errors: the docstring extractor lists an error only when it names a known error class; the response schema gets one
    # alternative per declared error
    de = prog.classes.get('pjrpc.server.specs.extractors.docstring.DocstringSchemaExtractor')
    if de is not None and 'extract_errors' in de.methods:
        f = de.methods['extract_errors']
        cfg = _CFG(f, prog)
        for n in cfg.stmt_nodes():
            for c in calls_in(n):
                if isinstance(c.func, ast.Attribute) and c.func.attr == 'append' and c.args and isinstance(c.args[0], ast.Name):
                    v = c.args[0].id
                    ok_t = False
                    for g in guard_edges(cfg, n):
                        k = classify_cond(prog, f, g.src.ast)
                        if k.subject == v and ((k.kind == 'truthy' and (g.label == 'T') != k.negated) or (k.kind == 'is-none' and (g.label == 'T') == k.negated)):
                            ok_t = True
                    ck.ob('NONE-LEAK', f'{short(f.qualname)}: `{v}` is listed only when the docstring names a known error class', ok_t)
                    if not ok_t:
                        ck.finding('NONE-LEAK', f.qualname, f'unknown error names listed as {v}', f.module.rel, n.line,
                                   f'`{norm(c)}` is not guarded by `{v}` being set: a `:raises X:` entry that names no registered error class puts None '
                                   f'into the method\'s error list, and generation fails (or the known errors are the ones dropped)')
    sm = prog.modules.get('pjrpc.server.specs.schemas')
    brs = prog.funcs.get('pjrpc.server.specs.schemas.build_response_schema')
    if brs is not None:
        cfg = _CFG(brs, prog)
        heads = [n for n in cfg.nodes if n.kind == 'next' and dotted(n.ast.iter) in [p.arg for p in brs.params]]
        ok_e = False
        if len(heads) == 1:
            h = heads[0]
            body = [n for n in cfg.stmt_nodes() if n.id in cfg.reachable(h, edge_ok=lambda e: e.label != 'exhausted') and h.id in cfg.reachable(n)]
            apps = [n for n in body for c in calls_in(n) if isinstance(c.func, ast.Attribute) and c.func.attr == 'append']
            first = [e.dst for e in cfg.succ[h.id] if e.label == 'body']
            ok_e = len(apps) == 1 and not any(h.id in cfg.reachable(s_, avoid_nodes=apps) for s_ in first if s_ not in apps)
        elif not heads:
            # no statement loop: the alternatives are built as a sequence value (`[ok, *map(f, errors)]`, a comprehension): read how the
            # list under `oneOf` is made — it takes one element from every declared error, unfiltered
            from ..flow import Flow as _FlowR
            fl_r = _FlowR(cfg)
            pnames = [p.arg for p in brs.params]
            for n_ in cfg.stmt_nodes():
                if n_.kind == 'stmt' and isinstance(n_.ast, ast.Return) and n_.ast.value is not None:
                    for al in fl_r.alts(n_, n_.ast.value):
                        if isinstance(al.expr, ast.Dict):
                            for k_, v_ in zip(al.expr.keys, al.expr.values):
                                if isinstance(k_, ast.Constant) and k_.value in ('oneOf', 'anyOf'):
                                    for sq in fl_r.seq(al.node or n_, v_):
                                        if sq.kind == 'iter' and dotted(sq.iter) in pnames and sq.total and not sq.filters:
                                            ok_e = True
        ck.ob('COMPLETE-LOOP', 'build_response_schema: every declared error contributes one alternative to the response schema', ok_e)
        if not ok_e:
            ck.finding('COMPLETE-LOOP', brs.qualname, 'declared errors are not all described', brs.module.rel, brs.node.lineno,
                       'the loop over the declared errors must append one schema per error: otherwise errors documented for the method are '
                       'missing from its entry')


CONSUMERS = {'list', 'tuple', 'sorted', 'set', 'frozenset', 'dict', 'sum', 'any', 'all', 'max', 'min', 'len', 'str', 'repr', 'bool'}


def _lazy_leaves(fl, n, e: ast.expr, depth: int = 0) -> List[ast.expr]:
    """One-shot iterators (generator expressions, map / filter / zip / iter / itertools objects) inside the VALUE `e` at node n, looking
    through locals (flow.py), conditional expressions, displays, dict()/keyword arguments and constructor arguments; the argument of
    a consuming call (list(..), tuple(..), sorted(..), ''.join(..)) is not part of the value."""
    from ..effects import LAZY_ITER_CALLS
    out: List[ast.expr] = []
    if depth > 6:
        return out
    for al in fl.alts(n, e):
        v = al.expr
        if isinstance(v, ast.GeneratorExp):
            out.append(v)
        elif isinstance(v, ast.Call):
            d = dotted(v.func)
            if d in LAZY_ITER_CALLS:
                out.append(v)
            elif d == 'dict':
                for k in v.keywords:        # dict(key=value): the values are stored as they are
                    out += _lazy_leaves(fl, al.node or n, k.value, depth + 1)
            elif d in CONSUMERS or (isinstance(v.func, ast.Attribute) and v.func.attr == 'join'):
                continue
            else:
                for a in list(v.args) + [k.value for k in v.keywords]:
                    a = a.value if isinstance(a, ast.Starred) else a
                    out += _lazy_leaves(fl, al.node or n, a, depth + 1)
        elif isinstance(v, (ast.List, ast.Tuple, ast.Set)):
            for x in v.elts:
                out += _lazy_leaves(fl, al.node or n, x, depth + 1)
        elif isinstance(v, ast.Dict):
            for x in v.values:
                out += _lazy_leaves(fl, al.node or n, x, depth + 1)
    return out


def _meta_not_lazy(ck: Check, prog: Program) -> None:
    """GEN-STATELESS (annotation side): what `annotate(...)` stores on the method for the generators to read at every generation holds
    no one-shot iterator — the first generation would consume it and every later document would miss that part."""
    from ..flow import Flow
    from ..util import stmt_node_of
    n_sites = 0
    for f in prog.iter_funcs():
        if not f.module.name.startswith('pjrpc.server.specs'):
            continue
        calls = [x for x in walk_own(f.node) if isinstance(x, ast.Call) and (dotted(x.func) or '').endswith('set_meta')]
        if not calls:
            continue
        cfg = CFG(f, prog)
        fl = Flow(cfg)
        for c in calls:
            n = stmt_node_of(cfg, c)
            if n is None:
                continue
            n_sites += 1
            lazy: List[ast.expr] = []
            for k in c.keywords:
                lazy += _lazy_leaves(fl, n, k.value)
            ck.ob('GEN-STATELESS', f'{short(f.qualname)}: the stored annotation holds no one-shot iterator', not lazy)
            for v in lazy:
                ck.finding('GEN-STATELESS', f.qualname, f'one-shot iterator stored in the annotation: {norm(v)[:50]}', f.module.rel, v.lineno,
                           f'`{norm(v)[:90]}` is stored in the method\'s annotation and read by every generation: the first one consumes it, so '
                           f'repeating the generation yields a different document (the part is missing)')
    ck.require('GEN-STATELESS', 'annotation stores (set_meta call sites in the specs package)', n_sites, 2)


def _name_source(ck: Check, prog: Program) -> None:
    """NAME-SOURCE: every name handed to the schema builders / extractors while describing a method is that Method's exposed name
    (`method.name`), not metadata kept on the function object (shared by all registrations of the function)."""
    from ..flow import Flow
    from ..util import stmt_node_of
    n_sites = 0
    for cq in (OPENAPI, OPENRPC):
        ci = prog.cls(cq)
        for f in ci.methods.values():
            if not (f.name.startswith('_extract') or f.name == 'schema'):
                continue
            mparam = next((p.arg for p in f.params[1:] if p.arg == 'method'), None)
            cfg = None
            for x in walk_own(f.node):
                if not isinstance(x, ast.Call):
                    continue
                fn = dotted(x.func) or ''
                is_builder = fn == 'build_request_schema' or fn.endswith('.build_request_schema')
                is_extractor = isinstance(x.func, ast.Attribute) and x.func.attr.startswith('extract_') and x.func.attr.endswith('_schema') and \
                    len(x.args) >= 2
                if not (is_builder or is_extractor) or not x.args:
                    continue
                if cfg is None:
                    cfg = CFG(f, prog)
                n_ = stmt_node_of(cfg, x)
                if n_ is None:
                    continue
                n_sites += 1
                leafs = [dotted(al.expr) for al in Flow(cfg).alts(n_, x.args[0])]
                ok = bool(leafs) and all(l is not None and l.endswith('.name') and (mparam is None or l == f'{mparam}.name' or l.split('.')[0] != 'self') and
                                         'meta' not in l for l in leafs)
                ck.ob('NAME-SOURCE', f'{short(f.qualname)}: `{fn or x.func.attr}` is given the exposed name of the method being described', ok)
                if not ok:
                    ck.finding('NAME-SOURCE', f.qualname, f'name argument {norm(x.args[0])[:40]}', f.module.rel, x.lineno,
                               f'`{norm(x)[:80]}` is given `{norm(x.args[0])}` = {leafs} as the method name: the entry must be built for the name the '
                               f'method is exposed under (method.name); metadata stored on the function object holds the name of the LAST registration '
                               f'of that function, so an alias / merged copy is documented under another method\'s name')
    ck.require('NAME-SOURCE', 'schema builder / extractor call sites', n_sites, 4)



def _unset_in_plain_mappings(prog: Program) -> List[Tuple[FuncInfo, ast.AST, str]]:
    """Sites where a schema extractor stores a possibly-UNSET value inside a plain dict (not a dataclass field): the value
    travels into the document as part of an opaque mapping."""
    from ..flow import Flow
    out = []
    for f in prog.iter_funcs():
        if not f.module.name.startswith(EXTRACTORS_PKG) or f.cls is None:
            continue
        cfg = None
        for x in walk_own(f.node):
            vals: List[Tuple[ast.AST, ast.expr]] = []
            if isinstance(x, ast.Dict):
                vals = [(x, v) for k, v in zip(x.keys, x.values) if k is not None]
            elif isinstance(x, ast.Assign) and isinstance(x.targets[0], ast.Subscript):
                vals = [(x, x.value)]
            for site, v in vals:
                leaves = [v]
                stack = [v]
                leaves = []
                while stack:
                    y = stack.pop()
                    if isinstance(y, ast.IfExp):
                        stack += [y.body, y.orelse]
                    elif isinstance(y, ast.BoolOp):
                        stack += list(y.values)
                    else:
                        leaves.append(y)
                if any(is_unset_expr(prog, f, y) for y in leaves):
                    out.append((f, site, norm(v)[:70]))
    return out


def _is_deep_cleaner(prog: Program, g: FuncInfo) -> bool:
    """g(obj) removes UNSET at every depth: it recurses into mapping values and into sequence elements and filters the sentinel."""
    calls_self = [x for x in walk_own(g.node) if isinstance(x, ast.Call) and dotted(x.func) == g.name]
    tests = [x for x in walk_own(g.node) if (isinstance(x, ast.Compare) and any(is_unset_expr(prog, g, c) for c in x.comparators))
             or (isinstance(x, ast.Call) and dotted(x.func) == 'isinstance' and len(x.args) == 2 and 'UnsetType' in norm(x.args[1]))]
    over_dict = any(isinstance(x, ast.Call) and isinstance(x.func, ast.Attribute) and x.func.attr in ('items', 'values') for x in walk_own(g.node))
    over_seq = any(isinstance(x, ast.Call) and dotted(x.func) == 'isinstance' and len(x.args) == 2 and 'list' in norm(x.args[1]) for x in walk_own(g.node))
    return len(calls_self) >= 2 and bool(tests) and over_dict and over_seq


def _encodable(ck: Check, prog: Program) -> None:
    """ENCODABLE: the UNSET sentinel cannot survive into a generated document.  Dataclass fields are filtered by both generators,
    but extractors also put UNSET inside plain schema dicts; dataclasses.asdict applies dict_factory to dataclass instances only
    (stdlib semantics, trusted), so such a value is removed only by a cleaner that recurses through mappings and sequences."""
    from ..flow import Flow
    sites = _unset_in_plain_mappings(prog)
    ck.extra['unset_in_plain_mappings'] = [f'{f.module.rel}:{getattr(site, "lineno", 0)} {txt}' for f, site, txt in sites]
    for cq in (OPENAPI, OPENRPC):
        ci = prog.cls(cq)
        schema = ci.methods['schema']
        cfg = CFG(schema, prog)
        fl = Flow(cfg)
        deep = True
        shown = []
        rets = [n for n in cfg.stmt_nodes() if n.kind == 'stmt' and isinstance(n.ast, ast.Return) and n.ast.value is not None]
        if not rets:
            raise AnalysisError(f'{schema.qualname}: no return value')
        for n in rets:
            for al in fl.alts(n, n.ast.value):
                v = al.expr
                shown.append(norm(v)[:60])
                ok_here = False
                if isinstance(v, ast.Call):
                    ent = prog.resolve(schema.module, v.func)
                    if isinstance(ent, FuncInfo) and _is_deep_cleaner(prog, ent):
                        ok_here = True
                if not ok_here:
                    deep = False
        ok = deep or not sites
        ck.ob('ENCODABLE', f'{ci.name}.schema: the UNSET sentinel is removed at every depth before the document is returned', ok,
              sample={'returns': shown, 'unset_inside_plain_dicts': len(sites)})
        if not ok:
            f0, site0, txt0 = sites[0]
            ck.finding('ENCODABLE', schema.qualname, 'UNSET can survive inside extractor-provided mappings', schema.module.rel, rets[0].line,
                       f'{ci.name}.schema returns `{shown[0]}`: sentinel filtering that is applied to dataclass fields only (dict_factory) '
                       f'does not reach plain dicts embedded in the document, and {len(sites)} extractor site(s) store a possibly-UNSET '
                       f'value inside such a dict (e.g. {f0.module.rel}:{getattr(site0, "lineno", 0)} `{txt0}`): the document then '
                       f'contains the UNSET object and json.dumps(document) raises TypeError',
                       [f'{f.module.rel}:{getattr(site, "lineno", 0)} {txt}' for f, site, txt in sites[:6]])
    ck.require('ENCODABLE', 'extractor sites storing a possibly-UNSET value in a plain dict (rule anchor)', len(sites), 1)


def _optional_attrs_of_docstring_parser() -> Tuple[Set[str], str]:
    """Attributes of the docstring_parser result objects that can be None — read from the installed library's SOURCE (ast)."""
    import importlib.util
    import os
    fallback = {'description', 'short_description', 'long_description', 'type_name', 'returns', 'deprecation', 'default', 'is_optional',
                'return_name', 'version', 'snippet'}
    try:
        spec = importlib.util.find_spec('docstring_parser')
        path = os.path.join(os.path.dirname(spec.origin), 'common.py') if spec and spec.origin else None
        if not path or not os.path.exists(path):
            return fallback, 'built-in table (library source not found)'
        tree = ast.parse(open(path).read())
    except Exception:
        return fallback, 'built-in table (library source unreadable)'
    out: Set[str] = set()
    for c in [x for x in tree.body if isinstance(x, ast.ClassDef)]:
        for m in [x for x in c.body if isinstance(x, ast.FunctionDef)]:
            if m.name == '__init__':
                opt_params = {a.arg for a in m.args.args + m.args.kwonlyargs if a.annotation is not None and 'Optional' in norm(a.annotation)}
                for st in ast.walk(m):
                    if isinstance(st, ast.Assign) and isinstance(st.targets[0], ast.Attribute) and dotted(st.targets[0].value) == 'self':
                        if isinstance(st.value, ast.Name) and st.value.id in opt_params:
                            out.add(st.targets[0].attr)
                        if isinstance(st.value, ast.Constant) and st.value.value is None:
                            out.add(st.targets[0].attr)
            elif any(dotted(d) == 'property' for d in m.decorator_list) and m.returns is not None and 'Optional' in norm(m.returns):
                out.add(m.name)
    return (out or fallback), f'derived from {path}'


def _none_leak(ck: Check, prog: Program) -> None:
    """NONE-LEAK: a docstring-parser attribute that can be None is never put into a document value unguarded (`"summary": null`,
    `"type": null` fail the OpenAPI / OpenRPC meta-schemas)."""
    from ..flow import Flow, _expand_ifexp
    opt, how = _optional_attrs_of_docstring_parser()
    ck.trusted.append(f'Optional attributes of docstring_parser result objects: {sorted(opt)} ({how})')
    sites = 0
    for f in prog.iter_funcs():
        if f.module.name != EXTRACTORS_PKG + '.docstring' or f.cls is None or not f.name.startswith('extract_'):
            continue
        ck.functions.add(f.qualname)
        cfg = CFG(f, prog)
        fl = Flow(cfg)
        cands: List[Tuple[Node, ast.expr, str]] = []
        for n in cfg.stmt_nodes():
            a = n.ast
            if n.kind != 'stmt':
                continue
            if isinstance(a, ast.Return) and a.value is not None and not isinstance(a.value, (ast.Tuple, ast.Dict)):
                cands.append((n, a.value, 'returned value'))
            for x in walk_no_defs_local(a):
                if isinstance(x, ast.Dict):
                    for k, v in zip(x.keys, x.values):
                        if k is not None:
                            cands.append((n, v, f'value of {norm(k)}'))
        for n, v, what in cands:
            for al in fl.alts(n, v, boolops=True):
                leaf = al.expr
                if not (isinstance(leaf, ast.Attribute) and leaf.attr in opt):
                    continue
                root = leaf
                while isinstance(root, ast.Attribute):
                    root = root.value
                if not isinstance(root, ast.Name) or root.id in ('self', 'method', 'cls'):
                    continue
                sites += 1
                d = dotted(leaf)
                guarded = False
                for c, pol in al.guards:
                    k = classify_cond(prog, f, c)
                    if k.subject == d and ((k.kind == 'is-none' and k.negated == pol) or (k.kind == 'truthy' and (not k.negated) == pol)):
                        guarded = True
                ck.ob('NONE-LEAK', f'{short(f.qualname)}: `{d}` ({what}) is None-guarded', guarded)
                if not guarded:
                    ck.finding('NONE-LEAK', f.qualname, f'{d} reaches the document unguarded ({what})', f.module.rel, n.line,
                               f'`{d}` can be None (docstring without that part) and is used as {what} without a None test: the generated '
                               f'documents then contain null there ("summary": null / "type": null), which the OpenAPI / OpenRPC '
                               f'meta-schemas reject; the neighbouring members are guarded (`… if … is not None else UNSET` / `… or UNSET`)')
    ck.require('NONE-LEAK', 'optional docstring attributes embedded in document values', sites, 3)


def walk_no_defs_local(a: ast.AST):
    stack = [a]
    while stack:
        x = stack.pop()
        yield x
        for ch in ast.iter_child_nodes(x):
            if not isinstance(ch, (ast.FunctionDef, ast.AsyncFunctionDef, ast.ClassDef, ast.Lambda)):
                stack.append(ch)


def _mutations(f: FuncInfo) -> List[Tuple[ast.AST, ast.expr, str]]:
    out = []
    for x in walk_own(f.node):
        if isinstance(x, ast.Call) and isinstance(x.func, ast.Attribute) and x.func.attr in MUTATORS:
            out.append((x, x.func.value, f'.{x.func.attr}()'))
        elif isinstance(x, (ast.Subscript, ast.Attribute)) and isinstance(x.ctx, (ast.Store, ast.Del)):
            out.append((x, x.value, 'store'))
        elif isinstance(x, ast.AugAssign) and isinstance(x.target, ast.Name) and isinstance(x.op, (ast.Add, ast.BitOr)):
            v = x.value
            listy = isinstance(v, (ast.List, ast.ListComp, ast.Dict, ast.DictComp, ast.Set, ast.SetComp)) or \
                (isinstance(v, ast.Call) and dotted(v.func) in ('list', 'dict', 'set', 'sorted')) or \
                (isinstance(v, ast.BoolOp) and any(isinstance(y, (ast.List, ast.Dict)) for y in v.values)) or \
                (isinstance(v, ast.Call) and isinstance(v.func, ast.Attribute) and v.func.attr.startswith('extract_'))
            if listy:
                out.append((x, ast.copy_location(ast.Name(id=x.target.id, ctx=ast.Load()), x), 'in-place +=/|='))
    return out


def _pure_borrow(ck: Check, prog: Program, ci: ClassInfo, funcs: List[FuncInfo], schema: FuncInfo) -> None:
    bw = Borrow(prog, funcs, schema)
    n = 0
    for f in funcs:
        for node, recv, how in _mutations(f):
            n += 1
            lvl, why = bw.level(recv, f)
            ok = lvl != BORROWED
            ck.ob('PURE-BORROW', f'{short(f.qualname)}: `{norm(node)[:50]}` mutates a fresh object', ok,
                  sample={'receiver': norm(recv), 'level': lvl, 'because': why})
            if not ok:
                ck.finding('PURE-BORROW', f.qualname, f'{how} on borrowed `{norm(recv)}`', f.module.rel, node.lineno,
                           f'`{norm(node)[:90]}` mutates `{norm(recv)}`, which is borrowed ({why}): generating the document modifies the '
                           f'methods\' annotations / objects the user passed in, so a second generation (or another method sharing the '
                           f'object) sees different data')
    ck.require('PURE-BORROW', f'mutating operations in {ci.name}', n, 3)


def _template_copy(ck: Check, prog: Program, ci: ClassInfo, schema: FuncInfo) -> None:
    ok = False
    for st in walk_own(schema.node):
        if isinstance(st, ast.Assign) and isinstance(st.value, ast.Call) and dotted(st.value.func) in ('copy.deepcopy', 'deepcopy') and \
                st.value.args and dotted(st.value.args[0]) and dotted(st.value.args[0]).startswith('self.'):
            ok = True
    ck.ob('PURE-BORROW', f'{ci.name}.schema works on a deep copy of the template', ok, nontrivial=False)
    if not ok:
        ck.finding('PURE-BORROW', schema.qualname, 'template not deep-copied', schema.module.rel, schema.node.lineno,
                   'schema() must start from copy.deepcopy(self.<template>): otherwise entries accumulate across generations')


def _method_loop(cfg: CFG, schema: FuncInfo) -> Node:
    heads = [n for n in cfg.nodes if n.kind == 'next']
    # the per-method loop: its body stores into / appends to the document
    best = None
    for h in heads:
        body = _body(cfg, h)
        if any(isinstance(n.ast, ast.Assign) and isinstance(n.ast.targets[0], ast.Subscript) for n in body) or \
                any(isinstance(c.func, ast.Attribute) and c.func.attr == 'append' for n in body for c in calls_in(n)):
            if best is None or len(_body(cfg, h)) > len(_body(cfg, best)):
                best = h
    if best is None:
        raise AnalysisError(f'{schema.qualname}: per-method loop not found')
    return best


def _body(cfg: CFG, h: Node) -> List[Node]:
    reach = cfg.reachable(h, edge_ok=lambda e: not (e.src is h and e.label == 'exhausted'))
    back = {n.id for n in cfg.nodes if h.id in cfg.reachable(n)}
    return [n for n in cfg.nodes if n.id in reach and n.id in back and n is not h]


def _uses(n: Node) -> Set[str]:
    out: Set[str] = set()
    for frag in node_exprs(n):
        if isinstance(frag, ast.Assign):
            srcs = [frag.value] + [t for t in frag.targets if not isinstance(t, ast.Name)]
        elif isinstance(frag, ast.AnnAssign):
            srcs = [frag.value] if frag.value is not None else []
        elif isinstance(frag, ast.AugAssign):
            srcs = [frag.value, frag.target]
        else:
            srcs = [frag]
        for s in srcs:
            for x in walk_no_defs(s):
                if isinstance(x, ast.Name) and isinstance(x.ctx, ast.Load):
                    out.add(x.id)
                elif isinstance(x, (ast.ListComp, ast.SetComp, ast.DictComp, ast.GeneratorExp)):
                    pass
    return out


def _loop_rules(ck: Check, prog: Program, ci: ClassInfo, schema: FuncInfo) -> None:
    cfg = CFG(schema, prog)
    h = _method_loop(cfg, schema)
    body = _body(cfg, h)
    body_ids = {n.id for n in body}
    targets = set(assigned_names(h))
    defined_in_body: Dict[str, List[Node]] = {}
    for n in body:
        for v in assigned_names(n):
            if '.' not in v and v not in targets:
                defined_in_body.setdefault(v, []).append(n)
    carried = []
    first = [e.dst for e in cfg.succ[h.id] if e.label == 'body']
    for v, defs in sorted(defined_in_body.items()):
        # upward-exposed use: a use reachable from the body start without passing a definition of v
        # (a node that both uses and defines v uses the old value first)
        pure_defs = [d for d in defs if v not in _uses(d)]
        reach: Set[int] = set()
        for s in first:
            if s in pure_defs:
                continue
            reach |= {s.id} | cfg.reachable(s, avoid_nodes=pure_defs + [h])
        for u in body:
            if u.id in reach and v in _uses(u):
                carried.append((v, u))
                break
    ck.ob('LOOP-CARRY', f'{ci.name}.schema: no local of the per-method loop is carried into the next iteration', not carried,
          sample={'locals_defined_in_loop': sorted(defined_in_body), 'carried': [v for v, _ in carried]})
    for v, u in carried:
        ck.finding('LOOP-CARRY', schema.qualname, f'loop-carried local {v}', schema.module.rel, u.line,
                   f'`{v}` is read at line {u.line} before it is (re)assigned in the same iteration of the per-method loop, and it is '
                   f'assigned inside the loop: the value computed for one method leaks into the entry of the next method')
    # COMPLETE-LOOP
    skips = [n for n in body if isinstance(n.ast, (ast.Continue, ast.Break))]
    stores = []
    for n in body:
        a = n.ast
        if isinstance(a, ast.Assign) and isinstance(a.targets[0], ast.Subscript) and 'name' in norm(a.targets[0].slice):
            stores.append(n)
        for c in calls_in(n):
            if isinstance(c.func, ast.Attribute) and c.func.attr == 'append' and any('.name' in norm(kw.value) for x in c.args if isinstance(x, ast.Call) for kw in x.keywords):
                stores.append(n)
    ok = not skips and len(stores) == 1
    if ok:
        # the store is on every path through the body
        s = stores[0]
        for st in first:
            if s is not st and h.id in cfg.reachable(st, avoid_nodes=[s]):
                ok = False
    ck.ob('COMPLETE-LOOP', f'{ci.name}.schema: every method of the map gets exactly one entry, none is skipped', ok,
          sample={'entry_store': norm(stores[0].ast)[:70] if stores else None})
    if not ok:
        ck.finding('COMPLETE-LOOP', schema.qualname, 'method entries can be skipped or duplicated', schema.module.rel, h.line,
                   f'the per-method loop has {len(skips)} continue/break statements and {len(stores)} entry stores: every registered method '
                   f'must be described exactly once under its exposed name')
    # ... and the loop runs over every (endpoint, method) pair of the methods map: the sequence it iterates is followed back to the
    # `methods_map` argument through list-building stages only (flow.py); a keyed container on the way (dict / set) collapses pairs
    from ..flow import Flow as _FlowM
    flm = _FlowM(cfg)
    it_nodes = [m_ for m_ in cfg.nodes if m_.kind == 'iter' and m_.ast is h.ast.iter]
    mm_param = next((p.arg for p in schema.params if 'methods' in p.arg), None)
    lossy = None

    def to_source(n_, e_, depth=0):
        nonlocal lossy
        if depth > 6 or lossy:
            return
        txt_ = norm(e_)
        if mm_param and (dotted(e_) == mm_param or isinstance(e_, ast.Call) and isinstance(e_.func, ast.Attribute) and
                         dotted(e_.func.value) == mm_param and e_.func.attr in ('items', 'values', 'get')):
            return
        if isinstance(e_, ast.Name) and e_.id in {y.id for x_ in cfg.nodes if x_.kind == 'next' for y in ast.walk(x_.ast.target) if isinstance(y, ast.Name)}:
            return          # an outer loop variable / comprehension element
        for al in flm.alts(n_, e_):
            v = al.expr
            if v is not e_ and not isinstance(v, ast.Name):
                to_source(al.node or n_, v, depth + 1)
                continue
            for sq in flm.seq(n_, v):
                if sq.kind == 'iter':
                    if sq.filters or sq.reordered or not sq.total:
                        lossy = f'`{norm(v)[:70]}` filters / reorders the pairs'
                        return
                    if sq.iter is not None and not (isinstance(sq.iter, ast.Name) and sq.comp is not None and
                                                    sq.iter.id in {y.id for g_ in getattr(sq.comp, 'generators', []) for y in ast.walk(g_.target) if isinstance(y, ast.Name)}):
                        to_source(sq.node or n_, sq.iter, depth + 1)
                elif sq.kind == 'opaque':
                    ex = sq.expr if sq.expr is not None else v
                    if any(isinstance(y, (ast.DictComp, ast.SetComp, ast.Dict, ast.Set)) or
                           isinstance(y, ast.Call) and dotted(y.func) in ('dict', 'set', 'frozenset', 'dict.fromkeys') for y in ast.walk(ex)):
                        lossy = f'`{norm(ex)[:80]}` goes through a keyed container (dict / set): pairs with an equal key collapse into one'
                        return
    if mm_param:
        to_source(it_nodes[0] if it_nodes else h, h.ast.iter)
    ck.ob('COMPLETE-LOOP', f'{ci.name}.schema: the per-method loop runs over every (endpoint, method) pair of the methods map', lossy is None)
    if lossy:
        ck.finding('COMPLETE-LOOP', schema.qualname, 'method pairs can be lost before the loop', schema.module.rel, h.line,
                   f'{lossy}: methods of different endpoints that share a name (or equal pairs) are described only once, so a registered '
                   f'method is missing from the document')
    if stores:
        txt = norm(stores[0].ast)
        name_ok = 'method.name' in txt
        ck.ob('COMPLETE-LOOP', f'{ci.name}.schema: the entry is keyed by the method\'s exposed name', name_ok, nontrivial=False)
        if not name_ok:
            ck.finding('COMPLETE-LOOP', schema.qualname, 'entry not keyed by the exposed name', schema.module.rel, stores[0].line,
                       f'`{txt[:80]}` does not use method.name (the name the dispatcher exposes)')


def _ref_closed(ck: Check, prog: Program, ci: ClassInfo, funcs: List[FuncInfo]) -> None:
    # a registration block moved into a private helper is looked at as part of the extracting function
    from ..inline import inlined_program
    with_rt = [f.qualname for f in funcs if any(isinstance(x, ast.Call) and any(kw.arg == 'ref_template' for kw in x.keywords) for x in walk_own(f.node))]
    prog = inlined_program(prog, with_rt)
    funcs = [prog.func(q) for q in with_rt]
    n = 0
    for f in funcs:
        for x in walk_own(f.node):
            if not isinstance(x, ast.Call):
                continue
            rt = [kw.value for kw in x.keywords if kw.arg == 'ref_template']
            if not rt:
                continue
            n += 1
            pref = _template_prefix(rt[0], f)
            # find the registration of the returned components in the same function
            regs = []
            for y in walk_own(f.node):
                if isinstance(y, ast.Call) and isinstance(y.func, ast.Attribute) and y.func.attr == 'update' and y.args:
                    a = y.args[0]
                    if isinstance(a, ast.DictComp):
                        kp = _key_prefix(a.key)
                        # the model-name part of the key is the extractor's component name itself (what `{model}` is filled with)
                        last = a.key.values[-1].value if isinstance(a.key, ast.JoinedStr) and a.key.values and \
                            isinstance(a.key.values[-1], ast.FormattedValue) else a.key
                        tnames = {y.id for g_ in a.generators for y in ast.walk(g_.target) if isinstance(y, ast.Name)}
                        if not (isinstance(last, ast.Name) and last.id in tnames):
                            kp = f'{kp}<{norm(last)[:50]}>'
                        regs.append(kp)
                    elif isinstance(a, ast.Name) and 'component' in a.id:
                        regs.append('')
            # the registration must not depend on the CONTENT of the returned schema (references can be nested anywhere in it)
            cfg_f = CFG(f, prog)
            for nd in cfg_f.stmt_nodes():
                for c2 in calls_in(nd):
                    if isinstance(c2.func, ast.Attribute) and c2.func.attr == 'update' and c2.args and \
                            (isinstance(c2.args[0], ast.DictComp) or (isinstance(c2.args[0], ast.Name) and 'component' in c2.args[0].id)):
                        for g in guard_edges(cfg_f, nd):
                            e = g.src.ast
                            if isinstance(e, ast.Compare) and isinstance(e.ops[0], (ast.In, ast.NotIn)) and isinstance(e.left, ast.Constant):
                                ck.finding('REF-CLOSED', f.qualname, f'components registered only when {norm(e)[:40]}', f.module.rel, nd.line,
                                           f'`{norm(c2)[:60]}` runs only when `{norm(e)}`: a $ref nested deeper in the schema (List[Model], Optional[Model], '
                                           f'Dict[str, Model]) is generated but its definition is not registered, so the document contains a dangling $ref')
            ok = pref is not None and regs and all(r == pref for r in regs)
            ck.ob('REF-CLOSED', f'{short(f.qualname)}: components are registered under the prefix used in ref_template', bool(ok),
                  sample={'ref_prefix': pref, 'registered_prefixes': regs})
            if not ok:
                ck.finding('REF-CLOSED', f.qualname, 'ref prefix and component keys disagree', f.module.rel, x.lineno,
                           f'$ref targets are generated with prefix `{pref}` but components are registered under `{regs}`: the document '
                           f'would contain dangling references')
    ck.require('REF-CLOSED', f'extractor calls with ref_template in {ci.name}', n, 2)


def _template_prefix(e: ast.expr, f: FuncInfo) -> Optional[str]:
    """'#/components/schemas/' + P + '{model}'  ->  normalised text of P ('' if none)."""
    if isinstance(e, ast.JoinedStr):
        parts = []
        for v in e.values:
            if isinstance(v, ast.Constant):
                parts.append(('c', v.value))
            elif isinstance(v, ast.FormattedValue):
                parts.append(('v', norm(v.value)))
        txt = ''.join(p[1] if p[0] == 'c' else '{' + p[1] + '}' for p in parts)
        # resolve a local constant prefix variable
        for st in walk_own(f.node):
            if isinstance(st, ast.Assign) and isinstance(st.targets[0], ast.Name) and isinstance(st.value, ast.Constant) and isinstance(st.value.value, str):
                txt = txt.replace('{' + st.targets[0].id + '}', st.value.value)
        base = '#/components/schemas/'
        if not txt.startswith(base) or not txt.endswith('{model}'):
            return None
        return txt[len(base):-len('{model}')]
    if isinstance(e, ast.Constant) and isinstance(e.value, str):
        base = '#/components/schemas/'
        if e.value.startswith(base) and e.value.endswith('{model}'):
            return e.value[len(base):-len('{model}')]
    return None


def _key_prefix(k: ast.expr) -> Optional[str]:
    if isinstance(k, ast.JoinedStr) and len(k.values) >= 1 and isinstance(k.values[-1], ast.FormattedValue):
        return ''.join(v.value if isinstance(v, ast.Constant) else '{' + norm(v.value) + '}' for v in k.values[:-1])
    if isinstance(k, ast.Name):
        return ''
    return None


def _iface_shape(ck: Check, prog: Program) -> None:
    base = prog.cls(BASE_EXTRACTOR)
    impls = prog.subclasses(base)
    ty = types_of(prog)
    n = 0
    for cq in (OPENAPI, OPENRPC):
        ci = prog.cls(cq)
        for f in generator_funcs(prog, ci):
            sc = FuncScope(f, ty)
            # variables bound to (slots of) extractor results
            bound: Dict[str, Tuple[str, Optional[int]]] = {}
            for st in walk_own(f.node):
                val = None
                tgs: List[ast.expr] = []
                if isinstance(st, ast.Assign):
                    val, tgs = st.value, st.targets
                elif isinstance(st, ast.NamedExpr):
                    val, tgs = st.value, [st.target]
                if not isinstance(val, ast.Call) or not isinstance(val.func, ast.Attribute):
                    continue
                mname = val.func.attr
                if mname not in base.methods:
                    continue
                if not any(k == 'func' and isinstance(o, FuncInfo) and o.cls is not None and o.cls in impls for k, o in ty.callees(val, sc)):
                    continue
                for tg in tgs:
                    if isinstance(tg, ast.Name):
                        bound[tg.id] = (mname, None)
                    elif isinstance(tg, ast.Tuple):
                        for i, el in enumerate(tg.elts):
                            if isinstance(el, ast.Name):
                                bound[el.id] = (mname, i)
            for x in walk_own(f.node):
                if isinstance(x, ast.Subscript) and isinstance(x.ctx, ast.Load) and isinstance(x.slice, ast.Constant) and \
                        isinstance(x.slice.value, str) and isinstance(x.value, ast.Name) and x.value.id in bound:
                    mname, slot = bound[x.value.id]
                    key = x.slice.value
                    n += 1
                    missing = []
                    for ic in impls:
                        m = ic.methods.get(mname)
                        if m is None:
                            continue
                        ks = _returned_keys(m, slot)
                        if ks is not None and key not in ks:
                            missing.append(ic.name)
                    ck.ob('IFACE-SHAPE', f'{short(f.qualname)}: `{norm(x)}` is provided by every {mname} implementation', not missing,
                          sample={'implementations': [i.name for i in impls], 'lacking': missing})
                    if missing:
                        ck.finding('IFACE-SHAPE', f.qualname, f'{norm(x)} not provided by {",".join(missing)}', f.module.rel, x.lineno,
                                   f'`{norm(x)}` subscripts the result of {mname}() with the constant key {key!r}, but the implementation(s) '
                                   f'{missing} return a mapping without that key: generating the document raises KeyError with those '
                                   f'extractors (use .get with a default)')
    ck.extra['iface_subscripts_checked'] = n


def _returned_keys(m: FuncInfo, slot: Optional[int]) -> Optional[Set[str]]:
    """Key set of the dict returned (in tuple slot `slot`) when it is statically known; None if unknown."""
    keysets: List[Set[str]] = []
    for st in walk_own(m.node):
        if isinstance(st, ast.Return) and st.value is not None:
            v = st.value
            if slot is not None:
                if isinstance(v, ast.Tuple) and len(v.elts) > slot:
                    v = v.elts[slot]
                else:
                    return None
            ks = _dict_keys(v, m)
            if ks is None:
                return None
            keysets.append(ks)
    if not keysets:
        return None
    out = keysets[0]
    for k in keysets[1:]:
        out = out & k
    return out


def _dict_keys(v: ast.expr, m: FuncInfo) -> Optional[Set[str]]:
    if isinstance(v, ast.Dict):
        if all(isinstance(k, ast.Constant) for k in v.keys):
            return {k.value for k in v.keys}
        return None
    if isinstance(v, ast.Name):
        # a local dict built with literal / dynamic keys
        init = None
        dynamic = False
        for st in walk_own(m.node):
            if isinstance(st, ast.Assign) and any(isinstance(t, ast.Name) and t.id == v.id for t in st.targets):
                if init is not None:
                    return None
                init = st.value
            if isinstance(st, ast.Subscript) and isinstance(st.ctx, ast.Store) and isinstance(st.value, ast.Name) and st.value.id == v.id:
                if not isinstance(st.slice, ast.Constant):
                    dynamic = True
        if isinstance(init, ast.Dict) and not init.keys:
            # keys are only ever added dynamically (e.g. one per documented parameter): constant keys are not guaranteed
            return set()
        if isinstance(init, ast.Dict):
            return _dict_keys(init, m)
        return None
    return None


def TOTAL_SCOPE(prog: Program) -> List[str]:
    """The document generators live in the whole specs package (annotate decorators, specification dataclasses, extractors, the
    encoder); the integrations' spec handlers are where the endpoint path the document is generated for comes from."""
    return [q for q, f in prog.funcs.items() if q.startswith('pjrpc.server.specs.') or
            q.startswith('pjrpc.server.integration.') and 'spec' in f.name.lower()]


MUTANTS = [
    dict(name='method-pairs-deduplicated-by-name', file='pjrpc/server/specs/openapi.py',
         find='        for prefix, method in methods_list:\n', replace='        for prefix, method in list({m_.name: (p_, m_) for p_, m_ in methods_list}.values()):\n',
         expect='COMPLETE-LOOP'),
    dict(name='annotation-tags-kept-as-a-generator', file='pjrpc/server/specs/openapi.py',
         find='            tags=[\n                tag if isinstance(tag, Tag) else Tag(name=tag) for tag in tags\n            ] if',
         replace='            tags=(\n                tag if isinstance(tag, Tag) else Tag(name=tag) for tag in tags\n            ) if', expect='GEN-STATELESS'),
    dict(name='template-not-copied', file='pjrpc/server/specs/openapi.py', find='        spec = copy.deepcopy(self._spec)\n', replace='        spec = self._spec\n',
         expect='PURE-BORROW'),
    dict(name='sort-annotation-tags-in-place', file='pjrpc/server/specs/openapi.py',
         find="        tags = annotations.get('tags', UNSET) or []\n\n        return tags",
         replace="        tags = annotations.get('tags', UNSET) or []\n        tags.sort(key=lambda t: t.name)\n\n        return tags", expect='PURE-BORROW'),
    dict(name='skip-deprecated-methods', file='pjrpc/server/specs/openrpc.py',
         find='            deprecated = self._extract_deprecated(method)\n', replace='            deprecated = self._extract_deprecated(method)\n            if deprecated:\n                continue\n',
         expect='COMPLETE-LOOP'),
    dict(name='components-without-prefix', file='pjrpc/server/specs/openapi.py', nth=1,
         find='                            f"{component_name_prefix}{name}": component\n', replace='                            name: component\n', expect='REF-CLOSED'),
    dict(name='mutate-methods-map', file='pjrpc/server/specs/openrpc.py', find="        for method in methods_map.get('', []):",
         replace="        for method in methods_map.setdefault('', []):", expect='PURE-BORROW'),
    dict(name='examples-carried', file='pjrpc/server/specs/openrpc.py', find='            examples = self._extract_examples(method)\n',
         replace='            examples = self._extract_examples(method) or (examples if "examples" in dir() else None)\n', expect='LOOP-CARRY'),
    dict(name='reintroduce-D16a-extend-annotation', file='pjrpc/server/specs/openapi.py',
         find="errors = list(annotations.get('errors', UNSET) or [])", replace="errors = annotations.get('errors', UNSET) or []", expect='PURE-BORROW'),
    dict(name='reintroduce-D16b-extend-annotation', file='pjrpc/server/specs/openrpc.py',
         find="errors = list(annotations.get('errors', UNSET) or [])", replace="errors = annotations.get('errors', UNSET) or []", expect='PURE-BORROW'),
    dict(name='reintroduce-D16c-prefix-carried', file='pjrpc/server/specs/openapi.py', all=True,
         find='method_component_prefix', replace='component_name_prefix', expect='LOOP-CARRY'),
    dict(name='reintroduce-D16d-properties-subscript', file='pjrpc/server/specs/openrpc.py',
         find="params_schema.get('properties', {}).items()", replace="params_schema['properties'].items()", expect='IFACE-SHAPE'),
    dict(name='reintroduce-D21-openrpc-shallow-unset-filter', file='pjrpc/server/specs/openrpc.py',
         find='        return drop_unset(dc.asdict(spec))\n',
         replace='        return dc.asdict(spec, dict_factory=lambda items: dict(i for i in items if i[1] is not UNSET))\n', expect='ENCODABLE'),
    dict(name='reintroduce-D22-type-none', file='pjrpc/server/specs/extractors/docstring.py',
         find="'type': param.type_name if param.type_name is not None else UNSET,", replace="'type': param.type_name,", expect='NONE-LEAK'),
    dict(name='summary-none', file='pjrpc/server/specs/extractors/docstring.py',
         find='description = doc.short_description or UNSET', replace='description = doc.short_description', expect='NONE-LEAK'),
]
