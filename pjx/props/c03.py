"""C03 — failures map to the JSON-RPC 2.0 error codes; application errors pass verbatim."""
from __future__ import annotations

import ast

from ..absint import EMPTY_ENV
from ..model import AnalysisError, ClassInfo, Program
from ..report import Check
from ..util import const_value, short
from . import c01
from .common import EXC, dispatchers
from .dfacts import errmap_facts, method_call_facts
from .wire import ERROR_SPEC, check_wire_shape

SPEC_CODES = {'ParseError': -32700, 'InvalidRequestError': -32600, 'MethodNotFoundError': -32601,
              'InvalidParamsError': -32602, 'InternalError': -32603, 'ServerError': -32000}


def run(ck: Check, prog: Program) -> None:
    from .common import dispatcher_program
    prog = dispatcher_program(prog)
    roles = dispatchers(prog)
    ck.explain('The exception-class → error-class table is extracted from the handlers of dispatch / the per-element chain '
               '(handler inflow computed by the escape analysis, constructed error classes resolved) and compared with the '
               'JSON-RPC 2.0 table; class constants are compared with the standard codes; the invocation sits outside the '
               'params-validation try; protocol errors are re-raised as the same object; no datum of an unexpected exception '
               'flows into the error sent to the client; the error wire form keeps data iff set (identity test).')
    ck.assume('json loader raises JSONDecodeError / ValueError for text that is not JSON (summary table)')
    ck.not_decided.append('whether a given text is JSON (the loader\'s job)')
    interp = c01.make_interp(prog, roles)
    for r in roles:
        half = short(r.dispatch.qualname).split('.')[0]
        for f in r.chain:
            ck.functions.add(f.qualname)
        facts, problems = errmap_facts(prog, interp, r)
        mfacts, mproblems = method_call_facts(prog, interp, r)
        problems = problems + [p for p in mproblems if p[0] in ('BIND-BEFORE-RUN', 'ERRMAP')]
        # every failure of the parse stage is answered (-32700 / -32600): no Exception class may leave dispatch unmapped
        resd = interp.analyze(r.dispatch, {EMPTY_ENV}, recv=r.cls.qualname)
        for (c_, o_), w_ in resd.raises.items():
            if c01.is_exception_class(prog, c_):
                inner = w_.innermost()
                problems.append(('ERRMAP', f'{c_} is not mapped to an error response', w_.line,
                                 f'{c_} raised at {inner.rel}:{inner.line} is caught by no handler of {short(r.dispatch.qualname)}: the failure is not '
                                 f'reported as a JSON-RPC error (-32700 for text the loader rejects, -32600 for an invalid request) but raised to the server'))
        for rule in ('ERRMAP', 'VERBATIM', 'NOLEAK-EXC', 'BIND-BEFORE-RUN'):
            bad = [p for p in problems if p[0] == rule]
            ck.ob(rule, f'{half}: {rule}', not bad, sample={'table': facts} if rule == 'ERRMAP' else None)
        n_rows = sum(len(v) for v in facts.values())
        ck.require('ERRMAP', f'handler rows in {half}', n_rows, 7)
        for rule, construct, line, msg in problems:
            ck.finding(rule, f'{r.cls.qualname}.<dispatch chain>', construct, r.dispatch.module.rel, line, msg)
    # SPEC-CODES
    for name, code in SPEC_CODES.items():
        ci = prog.cls(f'{EXC}.{name}')
        known, val = (False, None)
        for c in prog.mro(ci):
            if isinstance(c, ClassInfo) and 'code' in c.attrs:
                known, val = const_value(prog, None, c.attrs['code'], None)  # type: ignore[arg-type]
                break
        ok = known and val == code and not isinstance(val, bool)
        ck.ob('SPEC-CODES', f'{name}.code == {code}', bool(ok), nontrivial=False)
        if not ok:
            ck.finding('SPEC-CODES', ci.qualname, f'code {val!r}', ci.module.rel, ci.node.lineno,
                       f'{name}.code is {val!r}; JSON-RPC 2.0 assigns {code}')
        # message is a non-empty string constant
        for c in prog.mro(ci):
            if isinstance(c, ClassInfo) and 'message' in c.attrs:
                km, vm = const_value(prog, None, c.attrs['message'], None)  # type: ignore[arg-type]
                okm = km and isinstance(vm, str)
                ck.ob('SPEC-CODES', f'{name}.message is a string constant', bool(okm), nontrivial=False)
                if not okm:
                    ck.finding('SPEC-CODES', ci.qualname, 'message not a string', ci.module.rel, ci.node.lineno,
                               f'{name}.message must be a string (error objects carry a string message)')
                break
    # VERBATIM-CTOR: the error object keeps exactly the code / message it was built with (0 and "" included)
    from ..absint import Interp as _I
    from .sentinel import sent_truth
    ctor = prog.func(EXC + '.JsonRpcError.__init__')
    ck.functions.add(ctor.qualname)
    flagged, n_c = sent_truth(prog, _I(prog), ctor, scalar_rule=True)
    ck.ob('VERBATIM-CTOR', 'JsonRpcError.__init__ keeps the given code and message (no truthiness on protocol scalars)', not flagged,
          sample={'conditions': n_c})
    for s_, why, kinds in flagged:
        from ..model import norm as _n
        ck.finding('VERBATIM-CTOR', ctor.qualname, f'truthiness of {_n(s_.expr)} in {s_.context}', ctor.module.rel, s_.node.line,
                   f'`{_n(s_.node.ast)[:100]}`: {why}. A protocol error raised by a method with code 0 or message "" does not reach the '
                   f'caller with exactly its code and message')
    # "parameters that do not bind → -32602 without running it": the binder is Signature.bind over the filtered signature of THIS method
    # "a document that is not a valid non-empty batch is answered -32600": the emptiness rejection is part of the batch deserialiser that
    # BOTH dispatchers use (moved into one of them, the other answers `[]` with nothing)
    from . import c06 as _c06
    _c06._empty_batch_request(ck, _c06.model_program(prog))
    from .c04 import _bind_strict, bind_methods, validate_always
    _bind_strict(ck, prog)
    from . import borrow
    borrow(ck, prog, 'C05', {'BATCH-FORM'}, 'a batch with an element that is not a valid request is rejected as a whole: every element of the array is deserialised')
    # "a document that is not a valid request is answered -32600": the deserialisers raise DeserializationError and nothing else — a
    # member that may be an array / object is never hashed (set / dict membership) before its type is known
    _mp = _c06.model_program(prog)
    for q_ in ('pjrpc.common.v20.Request.from_json', 'pjrpc.common.v20.BatchRequest.from_json'):
        hf_ = _mp.func(q_)
        ck.functions.add(hf_.qualname)
        _c06._hash_uses(ck, _mp, hf_)
    # ... on every path: a binder that skips the validation for some params (empty, omitted) lets a call with missing required
    # arguments reach the method, which then fails with -32000 instead of -32602
    for b_ in bind_methods(prog):
        ck.functions.add(b_.qualname)
        validate_always(ck, prog, b_)
    from .wire import ctor_precedence_problems as _cpp
    _ci = prog.cls('pjrpc.common.exceptions.JsonRpcError')
    _pp = _cpp(prog, _ci)
    ck.ob('VERBATIM-CTOR', 'JsonRpcError.__init__: a given code / message wins over the class-level default', not _pp)
    for _c, _m, _l in _pp:
        ck.finding('VERBATIM-CTOR', _ci.qualname + '.__init__', _c, _ci.module.rel, _l, _m)
    # DATA-IFF-SET
    f = prog.func(EXC + '.JsonRpcError.to_json')
    ck.functions.add(f.qualname)
    problems2, n = check_wire_shape(prog, f, ERROR_SPEC)
    ck.ob('DATA-IFF-SET', 'JsonRpcError.to_json: code, message always; data iff set (identity test)', not problems2)
    for construct, msg, line in problems2:
        ck.finding('DATA-IFF-SET', f.qualname, construct, f.module.rel, line, msg)


MUTANTS = [
    dict(name='validation-skipped-for-empty-params', file='pjrpc/server/dispatcher.py', nth=0,
         find='        method_kwargs = self.validator.validate_method(\n            self.method, params, exclude=(self.context,) if self.context else (), **self.validator_args,\n        )\n',
         replace='        method_kwargs = self.validator.validate_method(\n            self.method, params, exclude=(self.context,) if self.context else (), **self.validator_args,\n        ) if params else {}\n',
         expect='VALIDATE-ALWAYS'),
    dict(name='swap-server-internal', file='pjrpc/server/dispatcher.py', nth=0,
         find='raise pjrpc.exceptions.ServerError() from e', replace='raise pjrpc.exceptions.InternalError() from e', expect='ERRMAP'),
    dict(name='leak-exception-text', file='pjrpc/server/dispatcher.py', nth=1,
         find='raise pjrpc.exceptions.ServerError() from e', replace='raise pjrpc.exceptions.ServerError(data=str(e)) from e', expect='NOLEAK-EXC'),
    dict(name='leak-in-internal-error', file='pjrpc/server/dispatcher.py', nth=0,
         find='error = pjrpc.exceptions.InternalError()', replace='error = pjrpc.exceptions.InternalError(data=repr(e))', expect='NOLEAK-EXC'),
    dict(name='rewrap-protocol-error', file='pjrpc/server/dispatcher.py', nth=0,
         find='        except pjrpc.exceptions.JsonRpcError:\n            raise\n',
         replace='        except pjrpc.exceptions.JsonRpcError as e:\n            raise type(e)(e.code, e.message)\n', expect='VERBATIM'),
    dict(name='data-truthiness', file='pjrpc/common/exceptions.py',
         find='        if self.data is not UNSET:\n            json.update(data=self.data)', replace='        if self.data:\n            json.update(data=self.data)',
         expect='DATA-IFF-SET'),
    dict(name='change-code', file='pjrpc/common/exceptions.py', find='code: int = -32601', replace='code: int = -32602', expect='SPEC-CODES'),
    dict(name='parse-error-as-invalid-request', file='pjrpc/server/dispatcher.py', nth=0,
         find='response = self._response_class(id=None, error=pjrpc.exceptions.ParseError(data=str(e)))',
         replace='response = self._response_class(id=None, error=pjrpc.exceptions.InvalidRequestError(data=str(e)))', expect='ERRMAP'),
    dict(name='valueerror-handler-shadows', file='pjrpc/server/dispatcher.py', nth=0,
         find='        except json.JSONDecodeError as e:', replace='        except ValueError as e:', expect='ERRMAP'),
    dict(name='notfound-as-invalid-params', file='pjrpc/server/dispatcher.py', nth=1,
         find="raise pjrpc.exceptions.MethodNotFoundError(data=f\"method '{method_name}' not found\")",
         replace="raise pjrpc.exceptions.InvalidParamsError(data=f\"method '{method_name}' not found\")", expect='ERRMAP'),
    dict(name='keep-error-replaced', file='pjrpc/server/dispatcher.py', nth=0,
         find='            error = e\n', replace='            error = pjrpc.exceptions.ServerError()\n', expect='VERBATIM'),
    dict(name='eager-format-of-caught-exception', file='pjrpc/server/dispatcher.py', nth=0,
         find='logger.exception("method unhandled exception %s(%r): %r", method_name, params, e)',
         replace='logger.exception(f"method unhandled exception {method_name}({params!r}): {e!r}")', expect='ERRMAP'),
]
