"""C14 — parameter validators admit exactly the conforming calls (structural clauses)."""
from __future__ import annotations

import ast
from typing import List, Optional, Set, Tuple

from ..absint import EMPTY_ENV, Interp, _is_abstract
from ..cfg import CFG
from ..model import AnalysisError, ClassInfo, FuncInfo, Program, dotted, norm
from ..report import Check
from ..types import FuncScope, types_of, walk_own
from ..util import calls_in, classify_cond, guard_edges, short
from . import c01
from .common import dispatchers
from .dfacts import method_call_facts

BASEVAL = 'pjrpc.server.validators.base.BaseValidator'
VERR = 'pjrpc.server.validators.base.ValidationError'


def validators(prog: Program) -> List[ClassInfo]:
    return prog.subclasses(prog.cls(BASEVAL))


def run(ck: Check, prog: Program) -> None:
    ck.explain('Structure of every validate_method override: binding precedes schema validation precedes the return; the exclude '
               'parameter is forwarded to signature()/super(); signature() drops a parameter iff it is in exclude or selected by the '
               'exclusion predicate and the same filtered signature feeds binder and schema builder; arguments given to '
               'ValidationError are strings (JSON-encodable) and the server JSON encoder serialises that class; the coercion '
               'switch returns model attributes iff coerce; the dispatcher validates before invoking (C03 rule reused).')
    ck.assume('jsonschema.validate raises jsonschema.ValidationError exactly for non-conforming instances (third-party semantics)')
    ck.not_decided += ['"iff the arguments satisfy the schema / annotations" — semantics of jsonschema and pydantic',
                       'PydanticValidator is inoperative under the installed pydantic (create_model(model_config=…) raises); its payload rule is an observation, not armed']
    ty = types_of(prog)
    vs = validators(prog)
    ck.require('VALID-ORDER', 'validator classes', len(vs), 3)
    interp = Interp(prog)
    # a validator is attached with `@validator.validate` / `@validator.validate(...)`: both forms hand the method back (with the
    # validator recorded in its metadata); a form that hands back None un-registers the method stacked under `@registry.add`
    from .common import ctor_forwarding, decorator_protocol_problems
    vd = prog.find_method(prog.cls(BASEVAL), 'validate')
    if vd is None:
        raise AnalysisError(f'{BASEVAL}.validate not found')
    ck.functions.add(vd.qualname)
    pd_ = decorator_protocol_problems(prog, vd)
    ck.ob('VALID-ATTACH', 'BaseValidator.validate: usable as `@validate` and `@validate(...)`, handing back the method it decorates', not pd_)
    for msg in pd_:
        ck.finding('VALID-ATTACH', vd.qualname, f'decorator protocol: {msg[:50]}', vd.module.rel, vd.node.lineno,
                   f'{short(vd.qualname)}: {msg}: the decorated name is bound to None — stacked under `@registry.add` nothing is registered '
                   f'and every call is answered -32601 instead of being validated and executed')
    # the exclusion predicate (and every other option a validator subclass accepts on behalf of BaseValidator) reaches the base
    # constructor as given: dropped on the way, the default `lambda *args: False` is used and nothing is ever excluded
    binit = prog.cls(BASEVAL).methods.get('__init__')
    if binit is not None:
        ck.functions.add(binit.qualname)
        from ..flow import Flow as _FlowI
        icfg = CFG(binit, prog)
        ifl = _FlowI(icfg)
        pnames_ = {p.arg for p in binit.params}
        for n_ in icfg.stmt_nodes():
            a_ = n_.ast
            if isinstance(a_, ast.Assign) and dotted(a_.targets[0]) == 'self._exclude_param':
                vals_ = [al.expr for al in ifl.alts(n_, a_.value, boolops=True)]
                # the given predicate, a lambda, a named function: all "as given / the default"; a CALL produces something else (a wrapper)
                bad_ = [v_ for v_ in vals_ if isinstance(v_, ast.Call)]
                ck.ob('EXCL-FORWARD', 'BaseValidator keeps the exclusion predicate as given (or the never-exclude default)', not bad_)
                for v_ in bad_:
                    ck.finding('EXCL-FORWARD', binit.qualname, f'predicate stored as `{norm(v_)[:50]}`', binit.module.rel, a_.lineno,
                               f'`{norm(a_)[:100]}` stores `{norm(v_)[:60]}` instead of the predicate the application gave: it is called with the '
                               f'parameter\'s (name, annotation, default) — wrapped in a memo it must hash them, and a parameter with a mutable default '
                               f'(`tags: list = []`) makes every call of the method fail with -32603 instead of being validated')
    for ci in vs:
        if ci.qualname == BASEVAL or '__init__' not in ci.methods:
            continue
        ck.functions.add(ci.methods['__init__'].qualname)
        fwd, probs_ = ctor_forwarding(prog, ci)
        ck.ob('EXCL-FORWARD', f'{ci.name}.__init__ hands its base-class options {fwd} to BaseValidator.__init__ as given', not probs_)
        for line, msg in probs_:
            ck.finding('EXCL-FORWARD', ci.methods['__init__'].qualname, msg[:70], ci.module.rel, line,
                       f'{ci.name}: {msg}: the parameters the application asked to exclude (injected dependencies) are validated and can be '
                       f'set by the client')
    for ci in vs:
        vm = ci.methods.get('validate_method')
        if vm is None:
            continue
        ck.functions.add(vm.qualname)
        cfg = CFG(vm, prog)
        sc = FuncScope(vm, ty)
        # classify statements
        bind_nodes, schema_nodes, ret_nodes = [], [], []
        for n in cfg.stmt_nodes():
            for c in calls_in(n):
                d = dotted(c.func) or ''
                if d in ('self.bind',) or (isinstance(c.func, ast.Attribute) and c.func.attr == 'validate_method' and
                                           isinstance(c.func.value, ast.Call) and dotted(c.func.value.func) == 'super'):
                    bind_nodes.append(n)
                tg = ty.callees(c, sc)
                if any(k == 'ext' and str(o) in ('jsonschema.validate',) for k, o in tg) or \
                        (isinstance(c.func, ast.Name) and c.func.id in ('params_model',)) or \
                        any(kw.arg is None for kw in c.keywords) and isinstance(c.func, ast.Name) and 'model' in c.func.id:
                    schema_nodes.append(n)
            if isinstance(n.ast, ast.Return):
                ret_nodes.append(n)
        ok = bool(bind_nodes) and all(cfg.dominated_by(r, bind_nodes) for r in ret_nodes)
        if ci.qualname != BASEVAL:
            ok = ok and bool(schema_nodes) and all(cfg.dominated_by(s, bind_nodes) for s in schema_nodes) and \
                all(cfg.dominated_by(r, schema_nodes) for r in ret_nodes)
        ck.ob('VALID-ORDER', f'{ci.name}.validate_method: bind, then schema validation, then return', ok,
              sample={'bind': [n.line for n in bind_nodes], 'schema': [n.line for n in schema_nodes]})
        if not ok:
            ck.finding('VALID-ORDER', vm.qualname, 'bind / schema validation / return order', vm.module.rel, vm.node.lineno,
                       f'{ci.name}.validate_method can return arguments that were not bound to the signature'
                       f'{"" if ci.qualname == BASEVAL else " and validated against the schema"} first: a non-conforming call would be executed')
        # VALID-SUBJECT: the schema is applied to the BOUND arguments (and those are what is returned), not to the raw params
        if ci.qualname != BASEVAL:
            bound_vars = set()
            for n in bind_nodes:
                if isinstance(n.ast, ast.Assign):
                    bound_vars |= {t.id for t in n.ast.targets if isinstance(t, ast.Name)}
            subj_ok = True
            why = ''
            for n in schema_nodes:
                for c in calls_in(n):
                    if any(k == 'ext' and str(o) == 'jsonschema.validate' for k, o in ty.callees(c, sc)):
                        a0 = c.args[0] if c.args else None
                        if a0 is None or dotted(a0) not in bound_vars:
                            subj_ok = False
                            why = f'`{norm(c)[:70]}` validates `{norm(a0) if a0 is not None else "?"}`'
            for r_ in ret_nodes:
                if r_.ast.value is not None and isinstance(r_.ast.value, ast.Name) and r_.ast.value.id not in bound_vars and \
                        ci.name == 'JsonSchemaValidator':
                    subj_ok = False
                    why = f'returns `{norm(r_.ast.value)}`'
            if ci.name == 'JsonSchemaValidator':
                ck.ob('VALID-SUBJECT', f'{ci.name}: the schema is checked against the bound-argument mapping, which is also what is returned', subj_ok)
                if not subj_ok:
                    ck.finding('VALID-SUBJECT', vm.qualname, 'schema applied to something other than the bound arguments', vm.module.rel, vm.node.lineno,
                               f'{why} instead of the mapping produced by binding: for signatures with **kwargs / defaults / positional passing the two '
                               f'differ, so non-conforming calls are executed or conforming ones refused')
        # FWD-PARAM(exclude)
        fwd = False
        for x in walk_own(vm.node):
            if isinstance(x, ast.Call):
                d = dotted(x.func) or ''
                if d == 'self.signature':
                    a = x.args[1] if len(x.args) > 1 else None
                    if a is not None:
                        from ..flow import Flow
                        from ..util import stmt_node_of
                        xn = stmt_node_of(cfg, x)
                        leafs = [al.expr for al in Flow(cfg).alts(xn, a)] if xn is not None else [a]
                        if leafs and all('exclude' in {y.id for y in ast.walk(l_) if isinstance(y, ast.Name)} for l_ in leafs):
                            fwd = True
                if isinstance(x.func, ast.Attribute) and x.func.attr == 'validate_method' and isinstance(x.func.value, ast.Call):
                    if any(dotted(a) == 'exclude' for a in x.args) or any(kw.arg == 'exclude' and dotted(kw.value) == 'exclude' for kw in x.keywords):
                        fwd = True
        ck.ob('FWD-PARAM', f'{ci.name}.validate_method forwards exclude to the signature filter', fwd)
        if not fwd:
            ck.finding('FWD-PARAM', vm.qualname, 'exclude not forwarded', vm.module.rel, vm.node.lineno,
                       f'{ci.name}.validate_method does not hand `exclude` to signature()/super().validate_method: the context parameter would be '
                       f'validated and required from the client')
        # ERR-PAYLOAD
        for x in walk_own(vm.node):
            if isinstance(x, ast.Raise) and isinstance(x.exc, ast.Call):
                ent = prog.resolve(vm.module, x.exc.func)
                if isinstance(ent, ClassInfo) and ent.qualname == VERR:
                    ok_p = all(isinstance(a, ast.Call) and dotted(a.func) == 'str' for a in x.exc.args) and not x.exc.keywords
                    if ci.name == 'PydanticValidator' and not ok_p:
                        ck.extra.setdefault('observations', []).append(
                            f'{vm.module.rel}:{x.lineno} `{norm(x.exc)}`: payload is pydantic\'s error dicts (may embed exception objects); '
                            f'not armed because the validator is inoperative under the installed pydantic')
                        continue
                    ck.ob('ERR-PAYLOAD', f'{ci.name}: ValidationError payload is str(...)', ok_p)
                    if not ok_p:
                        ck.finding('ERR-PAYLOAD', vm.qualname, 'non-string validation error payload', vm.module.rel, x.lineno,
                                   f'`{norm(x.exc)}`: the -32602 data must be JSON-encodable; pass str(e)')
    # base bind(): payload of the TypeError conversion
    b = prog.cls(BASEVAL).methods['bind']
    for x in walk_own(b.node):
        if isinstance(x, ast.Raise) and isinstance(x.exc, ast.Call):
            ok_p = all(isinstance(a, ast.Call) and dotted(a.func) == 'str' for a in x.exc.args)
            ck.ob('ERR-PAYLOAD', 'BaseValidator.bind: ValidationError payload is str(...)', ok_p)
            if not ok_p:
                ck.finding('ERR-PAYLOAD', b.qualname, 'non-string validation error payload', b.module.rel, x.lineno, f'`{norm(x.exc)}`')
    # the exclusion set the dispatcher hands to validate_method is a collection of parameter names (a bare string would turn the
    # `name in exclude` test of signature() into a substring test: parameters whose names are substrings of it are dropped)
    from .c04 import _bind_strict, bind_methods
    from .c17 import exclude_expr
    from .common import kwarg as _kw
    # "executed iff its arguments bind to the signature": Signature.bind over the filtered signature, whose kept parameters are
    # the method's own Parameter objects
    _bind_strict(ck, prog)
    for b_ in bind_methods(prog):
        if b_.cls is not None and b_.cls.name == 'Method':
            for x in walk_own(b_.node):
                if isinstance(x, ast.Call) and isinstance(x.func, ast.Attribute) and x.func.attr == 'validate_method':
                    form = exclude_expr(x, 2, prog, b_)
                    okx = form == '{<method>.context} iff set'
                    ck.ob('FWD-PARAM', f'{short(b_.qualname)} hands validate_method a collection holding exactly the context name (iff configured)', okx,
                          sample={'exclude': form})
                    if not okx:
                        ck.finding('FWD-PARAM', b_.qualname, f'exclude={form}', b_.module.rel, x.lineno,
                                   f'`exclude={form}` is not a one-element collection of the context name / an empty collection: signature() tests '
                                   f'`param.name not in exclude`, so a bare string excludes every parameter whose name is a substring of the '
                                   f'context name and a conforming call is refused with -32602')
    # "accepted arguments reach the method unchanged": bind() hands back what Signature.bind produced, untouched
    from .c04 import bind_result_untouched
    bvb = prog.cls(BASEVAL).methods['bind']
    cfg_b = CFG(bvb, prog)
    bcalls = [c for n in cfg_b.stmt_nodes() for c in calls_in(n) if isinstance(c.func, ast.Attribute) and c.func.attr in ('bind', 'bind_partial')
              and dotted(c.func.value) == bvb.params[1].arg]
    if len(bcalls) == 1:
        bp_ = bind_result_untouched(prog, bvb, cfg_b, bcalls[0])
        ck.ob('VALID-SUBJECT', 'BaseValidator.bind returns the Signature.bind result untouched (what is validated and passed on is what the client sent)', not bp_)
        for line, msg in bp_:
            ck.finding('VALID-SUBJECT', bvb.qualname, msg[:70], bvb.module.rel, line, msg)
    # a validator keeps no per-call state: options given for one method must not change what another method admits
    from ..effects import Effects
    for ci in vs:
        vm = ci.methods.get('validate_method')
        if vm is None:
            continue
        eff = Effects(prog, [vm], [ci])
        ws = eff.shared_writes()
        ck.ob('VALID-PURE', f'{ci.name}.validate_method writes no state that outlives the call', not ws, sample={'functions': len(eff.tree)})
        for w in ws:
            ck.finding('VALID-PURE', w.func.qualname, f'{w.why} on {w.target.split(":")[0]} state: {w.text[:50]}', w.func.module.rel, w.line,
                       f'`{w.text}` writes validator state that outlives the call ({w.target}): whether a later call of ANOTHER method is admitted then '
                       f'depends on which methods were validated before (options leak between methods sharing the validator)')
    # the validated arguments reach the call unchanged and the context parameter is neither client-settable nor validated
    from .c04 import _ctx_rules
    for b_ in bind_methods(prog):
        _ctx_rules(ck, prog, b_)
    _signature_filter(ck, prog)
    _same_signature(ck, prog)
    _coerce(ck, prog)
    _encoder(ck, prog)
    # dispatcher: validation precedes invocation
    from .common import dispatcher_program
    prog = dispatcher_program(prog)
    roles = dispatchers(prog)
    it2 = c01.make_interp(prog, roles)
    for r in roles:
        _, problems = method_call_facts(prog, it2, r)
        bad = [p for p in problems if p[0] in ('BIND-BEFORE-RUN', 'ONCE-INVOKE')]
        ck.ob('BIND-BEFORE-RUN', f'{r.cls.name}: the method runs only after validate_method returned', not bad)
        for rule, construct, line, msg in bad:
            ck.finding(rule, r.handle_rpc_method.qualname, construct, r.dispatch.module.rel, line, msg)
    from .totality import encoder_default
    encoder_default(ck, prog, 'pjrpc.server.dispatcher.JSONEncoder', [VERR],
                    why='the -32602 answer must carry a JSON-encodable description of what was wrong with the parameters')


def _signature_filter(ck: Check, prog: Program) -> None:
    sig = prog.cls(BASEVAL).methods.get('signature')
    if sig is None:
        raise AnalysisError('BaseValidator.signature not found')
    ck.functions.add(sig.qualname)
    from .c17 import keep_formula
    forms = keep_formula(prog, sig)
    if forms is None:
        raise AnalysisError(f'{sig.qualname}: parameter-filter construct not recognised (recognised: append / keyed store in a loop over '
                            f'.parameters, or a comprehension over it)')
    ok = forms == {'name-not-in-exclude', 'predicate-false'}
    why = f'a parameter is kept iff {sorted(forms)}'
    # the result replaces the parameters of the inspected signature
    rep = any(isinstance(x, ast.Call) and isinstance(x.func, ast.Attribute) and x.func.attr == 'replace' and
              any(kw.arg == 'parameters' for kw in x.keywords) for x in walk_own(sig.node))
    ck.ob('EXCL-AGREE', 'signature(): a parameter is dropped iff its name is in exclude or the exclusion predicate selects it', ok and rep,
          sample={'form': why})
    if not (ok and rep):
        ck.finding('EXCL-AGREE', sig.qualname, 'exclusion formula', sig.module.rel, sig.node.lineno,
                   f'signature() must keep a parameter iff name ∉ exclude ∧ ¬exclude_param(name, annotation, default); found: {why}')
    from .c17 import excluded_names_not_lazy
    excluded_names_not_lazy(ck, prog)
    _json_type_overrides(ck, prog)
    _pydantic_fields(ck, prog)
    _returns_bound_arguments(ck, prog)


JSON_TYPE_CLASSES = {'array': {'list', 'tuple'}, 'object': {'dict'}, 'string': {'str'}, 'integer': {'int'}, 'number': {'int', 'float'},
                     'boolean': {'bool'}, 'null': {'NoneType'}}


def _json_type_overrides(ck: Check, prog: Program) -> None:
    """VALID-SUBJECT (what counts as which JSON type): the Python classes the jsonschema validator is told to accept for a JSON type
    are containers of that kind only — `array` may be list / tuple (what the binder produces for *args), never an abstract class
    such as Sequence / Iterable, which a JSON string satisfies too."""
    n = 0
    for f in prog.iter_funcs():
        if not f.module.name.startswith('pjrpc.server.validators.jsonschema'):
            continue
        for x in walk_own(f.node):
            if not isinstance(x, ast.Dict):
                continue
            for k, v in zip(x.keys, x.values):
                if not (isinstance(k, ast.Constant) and k.value in JSON_TYPE_CLASSES):
                    continue
                elts = v.elts if isinstance(v, (ast.Tuple, ast.List)) else [v]
                names = []
                for e in elts:
                    ent = prog.resolve(f.module, e)
                    names.append(ent if isinstance(ent, str) else getattr(ent, 'qualname', None) or norm(e))
                if not all(isinstance(e, (ast.Name, ast.Attribute)) for e in elts):
                    continue
                n += 1
                extra = [nm for nm in names if nm.rsplit('.', 1)[-1] not in JSON_TYPE_CLASSES[k.value] or
                         ('.' in nm and not nm.startswith('builtins.'))]
                ck.ob('VALID-SUBJECT', f'{short(f.qualname)}: JSON type {k.value!r} is checked against {names}', not extra)
                if extra:
                    ck.finding('VALID-SUBJECT', f.qualname, f'JSON type {k.value!r} accepts {extra}', f.module.rel, x.lineno,
                               f'`{norm(x)[:80]}` makes the schema keyword type: {k.value} accept instances of {extra}: values of another JSON '
                               f'type satisfy it (a JSON string is a Sequence / Iterable / Sized), so a call that does not conform to the '
                               f'schema is executed')
    ck.require('VALID-SUBJECT', 'JSON type overrides of the jsonschema validator', n, 1)


def _pydantic_fields(ck: Check, prog: Program) -> None:
    """COERCE-SWITCH (the model the type validator checks against is the signature): build_validation_schema gives every parameter a
    field (annotation, default): the annotation when there is one, Any otherwise — wrapped as Dict[str, ·] for **kwargs and List[·]
    for *args; the default when there is one, `...` (required) otherwise, None for the variadic kinds; selected by the parameter kind;
    and returns the table it filled.  Decided on value flow: every (type, default) pair that can reach the table is read together with
    the tests on the parameter's kind / annotation / default under which it gets there (through locals and flags)."""
    from ..flow import Flow
    from ..inline import inlined_program
    from ..util import canon_deep_text as canon_text
    ci = prog.cls('pjrpc.server.validators.pydantic.PydanticValidator')
    f0 = ci.methods.get('build_validation_schema')
    if f0 is None:
        raise AnalysisError('PydanticValidator.build_validation_schema not found')
    prog = inlined_program(prog, [f0.qualname])
    f = prog.func(f0.qualname)
    ck.functions.add(f.qualname)
    cfg = CFG(f, prog)
    fl = Flow(cfg)
    heads = [n for n in cfg.nodes if n.kind == 'next']
    if len(heads) != 1 or not isinstance(heads[0].ast.target, ast.Name):
        raise AnalysisError(f'{f.qualname}: parameter loop not recognised')
    pv = heads[0].ast.target.id
    EMPTY = 'inspect.Parameter.empty'
    problems: List[Tuple[int, str]] = []
    stores = [n for n in cfg.stmt_nodes() if isinstance(n.ast, ast.Assign) and isinstance(n.ast.targets[0], ast.Subscript)
              and canon_text(f, n.ast.targets[0].slice) == f'{pv}.name']
    if not stores:
        raise AnalysisError(f'{f.qualname}: no store keyed by the parameter name')
    table = {dotted(n.ast.targets[0].value) for n in stores}

    def facts_of(guards) -> dict:
        """{'kind': 'VAR_KEYWORD'|'VAR_POSITIONAL'|'other'|None, 'ann': True|False|None, 'def': True|False|None} from path conditions"""
        out = {'kind': None, 'ann': None, 'def': None}
        not_kinds = set()
        for c_, pol in guards:
            t = canon_text(f, c_)
            for k in ('VAR_KEYWORD', 'VAR_POSITIONAL'):
                if t in (f'{pv}.kind is inspect.Parameter.{k}', f'{pv}.kind == inspect.Parameter.{k}', f'inspect.Parameter.{k} == {pv}.kind'):
                    if pol:
                        out['kind'] = k
                    else:
                        not_kinds.add(k)
                elif t in (f'{pv}.kind is not inspect.Parameter.{k}', f'{pv}.kind != inspect.Parameter.{k}'):
                    if not pol:
                        out['kind'] = k
                    else:
                        not_kinds.add(k)
            for key, attr in (('ann', 'annotation'), ('def', 'default')):
                if t == f'{pv}.{attr} is not {EMPTY}':
                    out[key] = pol
                elif t == f'{pv}.{attr} is {EMPTY}':
                    out[key] = not pol
        if out['kind'] is None and not_kinds == {'VAR_KEYWORD', 'VAR_POSITIONAL'}:
            out['kind'] = 'other'
        out['possible'] = {out['kind']} if out['kind'] else ({'VAR_KEYWORD', 'VAR_POSITIONAL', 'other'} - not_kinds)
        return out
    seen_kinds = set()
    for n in stores:
        base_g = [(g.src.ast, g.label == 'T') for g in guard_edges(cfg, n)]
        pairs = []
        for al in fl.alts(n, n.ast.value):
            v = al.expr
            if not (isinstance(v, ast.Tuple) and len(v.elts) == 2):
                raise AnalysisError(f'{f.qualname}: the stored field `{norm(v)[:50]}` cannot be followed to an (annotation, default) pair')
            t_alts = []
            for ta in fl.alts(al.node or n, v.elts[0]):
                te_ = ta.expr
                # a call through a local that holds one of several helper functions: one alternative per helper, with the helper's
                # (expression-like) body in place of the call
                if isinstance(te_, ast.Call) and isinstance(te_.func, ast.Name) and fl.defs_at(ta.node or n, te_.func.id):
                    expanded = False
                    for fa in fl.alts(ta.node or n, te_.func):
                        ent = prog.resolve(f.module, fa.expr) if dotted(fa.expr) else None
                        if isinstance(ent, FuncInfo) and ent.cls is None:
                            from ..inline import _Inliner
                            call2 = ast.copy_location(ast.Call(func=fa.expr, args=te_.args, keywords=te_.keywords), te_)
                            ex = _Inliner(prog, f, set(), [], False)._as_expression(call2, ent, False)
                            if ex is not None:
                                t_alts.append((ex, list(ta.guards) + list(fa.guards)))
                                expanded = True
                                continue
                        t_alts.append((te_, list(ta.guards) + list(fa.guards)))
                        expanded = True
                    if expanded:
                        continue
                t_alts.append((te_, list(ta.guards)))
            for te_, tg_ in t_alts:
                for da in fl.alts(al.node or n, v.elts[1]):
                    pairs.append((te_, da.expr, base_g + list(al.guards) + tg_ + list(da.guards)))
        for te, de, gs in pairs:
            # contradictory combinations (the two elements come from different branches) are not reachable
            pol = {}
            if any(pol.setdefault(canon_text(f, c_), p_) != p_ for c_, p_ in gs):
                continue
            fx = facts_of(gs)
            kind = fx['kind']
            if kind is None:
                # no test of the kind on this path: fine where what is expected does not depend on the kind
                if fx['ann'] is False and fx['def'] is True:
                    if canon_text(f, te) != 'Any' or canon_text(f, de) != f'{pv}.default':
                        problems.append((n.line, f'an un-annotated parameter with a default gets ({canon_text(f, te)[:30]}, {canon_text(f, de)[:30]}), expected (Any, {pv}.default)'))
                    continue
                # several kinds can take this path: the pair must be right for each of them
                wrong_for = []
                for k_ in sorted(fx['possible']):
                    want_t = ({'other': f'{pv}.annotation', 'VAR_KEYWORD': f'Optional[Dict[str, {pv}.annotation]]',
                               'VAR_POSITIONAL': f'Optional[List[{pv}.annotation]]'}[k_] if fx['ann'] else 'Any') if fx['ann'] is not None else None
                    want_d = (f'{pv}.default' if fx['def'] else ('...' if k_ == 'other' else 'None')) if fx['def'] is not None else None
                    if (want_t is not None and canon_text(f, te) != want_t) or (want_d is not None and canon_text(f, de) != want_d):
                        wrong_for.append(k_)
                if wrong_for:
                    problems.append((n.line, f'a parameter of kind {wrong_for} can get the field ({canon_text(f, te)[:40]}, {canon_text(f, de)[:20]}), which is the '
                                     f'definition of another kind'))
                    seen_kinds |= fx['possible'] - set(wrong_for)
                    continue
                raise AnalysisError(f'{f.qualname}: a field is stored without a decidable test of the parameter kind')
            seen_kinds.add(kind)
            tt, dt = canon_text(f, te), canon_text(f, de)
            uses_ann = f'{pv}.annotation' in tt
            if fx['ann'] is True:
                want = {'other': f'{pv}.annotation', 'VAR_KEYWORD': f'Optional[Dict[str, {pv}.annotation]]', 'VAR_POSITIONAL': f'Optional[List[{pv}.annotation]]'}[kind]
                if tt != want:
                    problems.append((n.line, f'{kind}: the field type for an annotated parameter is `{tt[:50]}`, expected `{want}`'))
            elif fx['ann'] is False:
                if tt != 'Any':
                    problems.append((n.line, f'{kind}: the field type for an un-annotated parameter is `{tt[:50]}`, expected Any'))
            else:
                problems.append((n.line, f'{kind}: the field type `{tt[:50]}` is chosen without testing whether the parameter is annotated'))
            if fx['def'] is True:
                if dt != f'{pv}.default':
                    problems.append((n.line, f'{kind}: the field default for a parameter with a default is `{dt[:40]}`, expected `{pv}.default`'))
            elif fx['def'] is False:
                want_d = '...' if kind == 'other' else 'None'
                if dt != want_d:
                    problems.append((n.line, f'{kind}: a parameter without default gets `{dt[:40]}`, expected `{want_d}` '
                                     f'({"required" if kind == "other" else "absent variadic arguments"})'))
            else:
                problems.append((n.line, f'{kind}: the field default `{dt[:40]}` is chosen without testing whether the parameter has a default'))
    if seen_kinds != {'other', 'VAR_KEYWORD', 'VAR_POSITIONAL'}:
        problems.append((f.node.lineno, f'fields are defined for the kinds {sorted(seen_kinds)}; expected one definition each for **kwargs, *args and ordinary parameters'))
    rets = [n for n in cfg.stmt_nodes() if isinstance(n.ast, ast.Return)]
    if not rets or any(n.ast.value is None or dotted(n.ast.value) not in table for n in rets):
        problems.append((f.node.lineno, 'build_validation_schema does not return the table of field definitions it filled'))
    problems = sorted(set(problems))
    ck.ob('COERCE-SWITCH', 'PydanticValidator.build_validation_schema: one (annotation-or-Any, default-or-required) field per parameter, by kind', not problems)
    for line, msg in problems:
        ck.finding('COERCE-SWITCH', f.qualname, msg[:70], f.module.rel, line,
                   msg + ': the pydantic model then accepts calls the annotations forbid or refuses calls they allow (-32602 iff the arguments '
                   'do not satisfy the annotations)')


def _returns_bound_arguments(ck: Check, prog: Program) -> None:
    """VALID-SUBJECT: what validate_method returns is the mapping of bound arguments (the dispatcher calls the method with it)."""
    from ..flow import Flow
    n_v = 0
    for cq in ('pjrpc.server.validators.base.BaseValidator', 'pjrpc.server.validators.jsonschema.JsonSchemaValidator',
               'pjrpc.server.validators.pydantic.PydanticValidator'):
        ci = prog.classes.get(cq)
        vm = ci.methods.get('validate_method') if ci is not None else None
        if vm is None:
            continue
        n_v += 1
        ck.functions.add(vm.qualname)
        cfg = CFG(vm, prog)
        fl = Flow(cfg)
        bad = []
        for n in cfg.stmt_nodes():
            if n.kind == 'stmt' and isinstance(n.ast, ast.Return):
                if n.ast.value is None:
                    bad.append((n.line, 'return'))
                    continue
                for al in fl.alts(n, n.ast.value):
                    if isinstance(al.expr, ast.Constant):
                        bad.append((n.line, norm(n.ast)))
        falls = cfg.exit.id in cfg.reachable(cfg.entry, avoid_nodes=[m for m in cfg.stmt_nodes() if isinstance(m.ast, (ast.Return, ast.Raise))],
                                             edge_ok=lambda e: e.label != 'exc')
        ck.ob('VALID-SUBJECT', f'{ci.name}.validate_method returns the bound arguments on every accepting path', not bad and not falls)
        for line, txt in bad + ([(vm.node.lineno, 'falling off the end')] if falls else []):
            ck.finding('VALID-SUBJECT', vm.qualname, f'validate_method returns a constant: {txt[:30]}', vm.module.rel, line,
                       f'`{txt}`: validate_method must return the mapping of bound arguments — the dispatcher splats it into the method call, so a '
                       f'conforming call is answered -32603 / executed without its arguments')
    ck.require('VALID-SUBJECT', 'validate_method implementations', n_v, 3)


def _pyd_validate_method(prog: Program):
    """(program, validate_method) with helpers extracted from PydanticValidator.validate_method inlined."""
    from ..inline import inlined_program
    q = 'pjrpc.server.validators.pydantic.PydanticValidator.validate_method'
    if q not in prog.funcs:
        return None, None
    p2 = inlined_program(prog, [q])
    return p2, p2.func(q)


def _same_signature(ck: Check, prog: Program) -> None:
    """Pydantic: the same filtered signature feeds the binder and the schema builder."""
    from ..flow import Flow
    from ..util import stmt_node_of
    prog, vm = _pyd_validate_method(prog)
    if vm is None:
        return
    cfg = CFG(vm, prog)
    fl = Flow(cfg)
    sources = []
    uses = [x for x in walk_own(vm.node) if isinstance(x, ast.Call) and dotted(x.func) in ('self.bind', 'self.build_validation_schema')]
    for x in uses:
        xn = stmt_node_of(cfg, x)
        alts = fl.alts(xn, x.args[0]) if (xn is not None and x.args) else []
        sources.append([al.expr for al in alts])
    ok = len(uses) == 2 and all(len(s_) == 1 and isinstance(s_[0], ast.Call) and dotted(s_[0].func) == 'self.signature' for s_ in sources) and \
        sources[0][0] is sources[1][0]
    ck.ob('EXCL-AGREE', 'PydanticValidator: one filtered signature feeds both the binder and the schema builder', ok)
    if not ok:
        ck.finding('EXCL-AGREE', vm.qualname, 'binder and schema use different signatures', vm.module.rel, vm.node.lineno,
                   'the binder and the schema builder must work on the same filtered signature')


def _coerce(ck: Check, prog: Program) -> None:
    from ..flow import Flow
    prog, vm = _pyd_validate_method(prog)
    if vm is None:
        return
    cfg = CFG(vm, prog)
    fl = Flow(cfg)
    seen = set()
    bad = []
    for n in cfg.stmt_nodes():
        if n.kind != 'stmt' or not isinstance(n.ast, ast.Return) or n.ast.value is None:
            continue
        for al in fl.alts(n, n.ast.value):
            st = None
            for c, pol in al.guards:
                k = classify_cond(prog, vm, c)
                if k.kind == 'truthy' and k.subject == 'self._coerce':
                    st = (not k.negated) == pol
            v = al.expr
            is_args = norm(v).endswith('.arguments')
            model_attrs = (isinstance(v, ast.DictComp) and 'getattr' in norm(v)) or \
                (isinstance(v, ast.Name) and al.built_def is not None and any(
                    isinstance(m.ast, ast.Assign) and isinstance(m.ast.targets[0], ast.Subscript) and dotted(m.ast.targets[0].value) == v.id
                    and 'getattr' in norm(m.ast.value) for m in cfg.stmt_nodes()))
            if st is True and model_attrs:
                seen.add('coerced')
            elif st is False and is_args:
                seen.add('as-bound')
            else:
                bad.append(al.text()[:80])
    ok = seen == {'coerced', 'as-bound'} and not bad
    ck.ob('COERCE-SWITCH', 'PydanticValidator returns model attributes iff coerce, the bound arguments otherwise', ok)
    if not ok:
        ck.finding('COERCE-SWITCH', vm.qualname, 'coercion switch', vm.module.rel, vm.node.lineno,
                   f'validate_method must return the model\'s (coerced) attributes iff self._coerce, else the bound arguments unchanged'
                   f'{"; found " + "; ".join(bad) if bad else ""}')


def _encoder(ck: Check, prog: Program) -> None:
    enc = prog.cls('pjrpc.server.dispatcher.JSONEncoder')
    d = enc.methods.get('default')
    ok = False
    if d is not None:
        cfg = CFG(d, prog)
        for n in cfg.nodes:
            if n.kind == 'cond' and isinstance(n.ast, ast.Call) and dotted(n.ast.func) == 'isinstance':
                ent = prog.resolve(d.module, n.ast.args[1])
                if isinstance(ent, ClassInfo) and ent.qualname == VERR:
                    for e in cfg.succ[n.id]:
                        if e.label == 'T' and isinstance(e.dst.ast, ast.Return):
                            ok = True
        sup = any(isinstance(x, ast.Call) and isinstance(x.func, ast.Attribute) and x.func.attr == 'default' and
                  isinstance(x.func.value, ast.Call) and dotted(x.func.value.func) == 'super' for x in walk_own(d.node))
        ok = ok and sup
    # the dispatchers use this encoder by default
    base = prog.cls('pjrpc.server.dispatcher.BaseDispatcher').methods['__init__']
    dflt = base.param_default('json_encoder')
    ok2 = dflt is not None and dotted(dflt) == 'JSONEncoder'
    ck.ob('ERR-PAYLOAD', 'server JSONEncoder serialises ValidationError and is the dispatchers\' default encoder', ok and ok2)
    if not (ok and ok2):
        ck.finding('ERR-PAYLOAD', enc.qualname + '.default', 'ValidationError not encodable', enc.module.rel, enc.node.lineno,
                   'InvalidParamsError(data=<ValidationError>) is sent as error data: the server encoder must serialise ValidationError '
                   '(and delegate everything else to the base encoder), and must be the dispatcher default')


MUTANTS = [
    dict(name='array-type-widened-to-sequence', file='pjrpc/server/validators/jsonschema.py',
         find="kwargs.setdefault('types', {'array': (list, tuple)})", replace="kwargs.setdefault('types', {'array': (list, tuple, str)})",
         expect='VALID-SUBJECT'),
    dict(name='kept-parameters-made-positional-or-keyword', file='pjrpc/server/validators/base.py',
         find='        return signature.replace(parameters=method_parameters)',
         replace='        return signature.replace(parameters=[p.replace(kind=p.POSITIONAL_OR_KEYWORD) for p in method_parameters])',
         expect='BIND-STRICT'),
    dict(name='jsonschema-validate-before-bind', file='pjrpc/server/validators/jsonschema.py',
         find='''        arguments = super().validate_method(method, params, exclude)

        try:
            kwargs = {**self.default_kwargs, **kwargs}
            jsonschema.validate(arguments, **kwargs)
        except jsonschema.ValidationError as e:
            raise base.ValidationError(str(e)) from e
''',
         replace='''        try:
            kwargs = {**self.default_kwargs, **kwargs}
            jsonschema.validate(params, **kwargs)
        except jsonschema.ValidationError as e:
            raise base.ValidationError(str(e)) from e
        arguments = super().validate_method(method, params, exclude)
''', expect='VALID-ORDER'),
    dict(name='jsonschema-drops-exclude', file='pjrpc/server/validators/jsonschema.py', find='super().validate_method(method, params, exclude)',
         replace='super().validate_method(method, params)', expect='FWD-PARAM'),
    dict(name='payload-exception-object', file='pjrpc/server/validators/jsonschema.py', find='raise base.ValidationError(str(e)) from e',
         replace='raise base.ValidationError(e) from e', expect='ERR-PAYLOAD'),
    dict(name='predicate-ignored', file='pjrpc/server/validators/base.py',
         find='if param.name not in exclude and not self._exclude_param(param.name, param.annotation, param.default):',
         replace='if param.name not in exclude:', expect='EXCL-AGREE'),
    dict(name='encoder-drops-validation-error', file='pjrpc/server/dispatcher.py',
         find='        if isinstance(o, validators.base.ValidationError):\n            return [err for err in o.args]\n\n', replace='', expect='ERR-PAYLOAD'),
    dict(name='coerce-inverted', file='pjrpc/server/validators/pydantic.py', find='if self._coerce else bound_params.arguments',
         replace='if not self._coerce else bound_params.arguments', expect='COERCE-SWITCH'),
    dict(name='skip-schema-on-empty', file='pjrpc/server/validators/jsonschema.py',
         find='        arguments = super().validate_method(method, params, exclude)\n',
         replace='        arguments = super().validate_method(method, params, exclude)\n        if not arguments:\n            return arguments\n',
         expect='VALID-ORDER'),
    dict(name='bind-fills-defaults', file='pjrpc/server/validators/base.py',
         find='            return signature.bind(*method_args, **method_kwargs)\n',
         replace='            bound = signature.bind(*method_args, **method_kwargs)\n            bound.apply_defaults()\n            return bound\n', expect='VALID-SUBJECT'),
    dict(name='options-merged-in-place', file='pjrpc/server/validators/jsonschema.py',
         find='            kwargs = {**self.default_kwargs, **kwargs}\n', replace='            self.default_kwargs.update(kwargs)\n            kwargs = self.default_kwargs\n',
         expect='VALID-PURE'),
    dict(name='exclude-bare-string', file='pjrpc/server/dispatcher.py', find='exclude=(self.context,) if self.context else ()', replace='exclude=self.context or ()',
         expect='FWD-PARAM'),
]
