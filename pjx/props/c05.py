"""C05 — messages survive the wire: serialise -> JSON text -> deserialise is lossless (structural clauses)."""
from __future__ import annotations

import ast
from typing import Dict, List, Optional, Set, Tuple

from ..absint import EMPTY_ENV, K_VAL, Interp, _is_abstract, env_set
from ..cfg import CFG
from ..model import AnalysisError, ClassInfo, FuncInfo, Program, dotted, norm
from ..report import Check
from ..types import FuncScope, types_of, walk_own
from ..util import classify_cond, const_value, guard_edges, is_unset_expr, key_reads, short
from .c06 import _member_vars, from_json_funcs, json_param, model_program
from .common import EXC, V20
from .sentinel import sent_truth
from .wire import ERROR_SPEC, REQUEST_SPEC, RESPONSE_SPEC, check_wire_shape

MODEL = {V20 + '.Request': REQUEST_SPEC, V20 + '.Response': RESPONSE_SPEC, EXC + '.JsonRpcError': ERROR_SPEC}


def reader_table(prog: Program, f: FuncInfo) -> Tuple[Dict[str, Tuple[str, Optional[ast.expr]]], Dict[str, str]]:
    """(key -> (how, default expr), key -> constructor parameter it is passed to)."""
    cfg = CFG(f, prog)
    jp = json_param(f)
    reads: Dict[str, Tuple[str, Optional[ast.expr]]] = {}
    for r in key_reads(cfg):
        if r.var == jp:
            cur = reads.get(r.key)
            if cur is None or (cur[0] == 'subscript' and r.how == 'get'):
                reads[r.key] = (r.how, r.default)
    members = _member_vars(cfg, f)
    var_key = {v: k for k, (v, _) in members.items()}
    key_param: Dict[str, str] = {}
    ci = f.cls
    assert ci is not None
    from ..flow import Flow
    fl = Flow(cfg)

    def keys_of(n, a: ast.expr) -> Set[str]:
        """Members the constructor argument is derived from (through locals, conditional expressions, nested deserialisers)."""
        out: Set[str] = set()
        k0 = _key_of_expr(a, var_key, jp)
        if k0:
            return {k0}
        for al in fl.alts(n, a):
            for nm_ in al.names:
                if nm_ in var_key:
                    out.add(var_key[nm_])
            for x in ast.walk(al.expr):
                if isinstance(x, ast.Name) and x.id in var_key:
                    out.add(var_key[x.id])
                elif isinstance(x, (ast.Call, ast.Subscript)):
                    kx = _key_of_expr(x, var_key, jp)
                    if kx:
                        out.add(kx)
        return out
    for n in cfg.stmt_nodes():
        if isinstance(n.ast, ast.Return) and isinstance(n.ast.value, ast.Call):
            call = n.ast.value
            # constructor call: cls(...) or a class obtained from the registry
            init = prog.find_method(ci, '__init__')
            if init is None:
                continue
            pnames = [p.arg for p in init.params[1:]]
            for i, a in enumerate(call.args):
                if isinstance(a, ast.Starred):
                    break
                ks = keys_of(n, a)
                if len(ks) == 1 and i < len(pnames):
                    key_param[next(iter(ks))] = pnames[i]
            for kw in call.keywords:
                if kw.arg:
                    ks = keys_of(n, kw.value)
                    if len(ks) == 1:
                        key_param[next(iter(ks))] = kw.arg
    return reads, key_param


def _key_of_expr(a: ast.expr, var_key: Dict[str, str], jp: str) -> Optional[str]:
    if isinstance(a, ast.Name):
        return var_key.get(a.id)
    if isinstance(a, ast.Call) and isinstance(a.func, ast.Attribute) and a.func.attr == 'get' and dotted(a.func.value) == jp \
            and a.args and isinstance(a.args[0], ast.Constant):
        return a.args[0].value
    if isinstance(a, ast.Subscript) and dotted(a.value) == jp and isinstance(a.slice, ast.Constant):
        return a.slice.value
    return None


def run(ck: Check, prog: Program) -> None:
    ck.explain('Writer/reader table agreement for Request, Response and JsonRpcError: the key set written by to_json equals the '
               'key set read by from_json, every optional member\'s omission condition pairs with the reader\'s default '
               '(id: is None ↔ .get; result/error/data: is UNSET ↔ .get(k, UNSET); params: falsy ↔ falsy default), each key maps to '
               'the same constructor parameter in both directions; identity tests only on sentinel-typed values and protocol '
               'scalars; version constant; error-class registry lookup with the supplied base as default and the error_cls '
               'parameter forwarded through every nested deserialiser; the JSON encoder covers every message class.')
    ck.not_decided += ['value equality after JSON encode/decode for arbitrary payloads (floats, astral characters) — json\'s semantics',
                       'equality of reconstructed objects on concrete data']
    prog = model_program(prog)
    interp = Interp(prog)
    ty = types_of(prog)
    # ---- WIRE-TABLE ------------------------------------------------------------------------------
    for cq, spec in MODEL.items():
        ci = prog.cls(cq)
        tj, fj = ci.methods.get('to_json'), ci.methods.get('from_json')
        if tj is None or fj is None:
            raise AnalysisError(f'{cq}: to_json / from_json not found')
        ck.functions |= {tj.qualname, fj.qualname}
        problems, n = check_wire_shape(prog, tj, spec)
        ck.ob('WIRE-TABLE', f'{ci.name}.to_json writes exactly {sorted(spec)} under the specified guards', not problems,
              sample={'spec': {k: v[0] for k, v in spec.items()}})
        for construct, msg, line in problems:
            ck.finding('WIRE-TABLE', tj.qualname, construct, tj.module.rel, line, msg)
        reads, key_param = reader_table(prog, fj)
        missing = set(spec) - set(reads)
        extra = set(reads) - set(spec)
        ck.ob('WIRE-TABLE', f'{ci.name}: reader key set == writer key set', not missing and not extra,
              sample={'reads': {k: v[0] for k, v in reads.items()}})
        for k in sorted(missing):
            ck.finding('WIRE-TABLE', fj.qualname, f'member {k!r} written but never read', fj.module.rel, fj.node.lineno,
                       f'{ci.name}.to_json writes {k!r} but from_json never reads it: the member is lost on the round trip')
        for k in sorted(extra):
            ck.finding('WIRE-TABLE', fj.qualname, f'member {k!r} read but never written', fj.module.rel, fj.node.lineno,
                       f'{ci.name}.from_json reads {k!r}, which to_json never writes')
        for k, (mode, arg) in spec.items():
            if k not in reads:
                continue
            how, dflt = reads[k]
            ok = True
            why = ''
            if mode == 'iff-set':
                ok = how == 'get' and dflt is not None and is_unset_expr(prog, fj, dflt)
                why = 'the writer omits it when UNSET, so the reader must default to UNSET (`.get(k, UNSET)`): any other default makes "absent" and "null" indistinguishable'
            elif mode == 'iff-not-none':
                ok = how == 'get' and (dflt is None or (isinstance(dflt, ast.Constant) and dflt.value is None))
                why = 'the writer omits it when None, so the reader must default to None'
            elif mode == 'iff-truthy':
                if isinstance(dflt, ast.Name):
                    # a local bound once, in this call, to a fresh empty container (`no_params = list()`)
                    from ..util import single_defs as _sd
                    _v = _sd(fj).get(dflt.id)
                    if isinstance(_v, ast.Call) and dotted(_v.func) in ('list', 'tuple', 'dict') and not _v.args and not _v.keywords:
                        dflt = ast.List(elts=[], ctx=ast.Load())
                    elif isinstance(_v, (ast.List, ast.Tuple, ast.Dict)):
                        dflt = _v
                ok = how == 'get' and dflt is not None and (
                    (isinstance(dflt, (ast.List, ast.Tuple, ast.Dict)) and not getattr(dflt, 'elts', getattr(dflt, 'keys', None))) or
                    (isinstance(dflt, ast.Constant) and dflt.value is None))
                why = 'the writer omits it when empty, so the reader must default to an empty value'
            ck.ob('WIRE-TABLE', f'{ci.name}: omission of {k!r} pairs with the reader default', ok)
            if not ok:
                ck.finding('WIRE-TABLE', fj.qualname, f'member {k!r} default mismatch', fj.module.rel, fj.node.lineno,
                           f'{ci.name}.from_json reads {k!r} by {how} with default {norm(dflt) if dflt is not None else "<none>"}; {why}')
            if mode != 'const':
                okp = key_param.get(k) == arg
                ck.ob('WIRE-TABLE', f'{ci.name}: member {k!r} ↔ constructor parameter {arg!r} in both directions', okp)
                if not okp:
                    ck.finding('WIRE-TABLE', fj.qualname, f'member {k!r} reaches parameter {key_param.get(k)!r}', fj.module.rel, fj.node.lineno,
                               f'{ci.name}.to_json takes {k!r} from constructor parameter {arg!r} but from_json passes the member to '
                               f'parameter {key_param.get(k)!r}')
    # ---- batches: element-wise lists in storage order ------------------------------------------
    for cq, elem in ((V20 + '.BatchRequest', 'Request'), (V20 + '.BatchResponse', 'Response')):
        ci = prog.cls(cq)
        _batch_forms(ck, prog, ci, elem)
    # ---- VERSION-CONST -------------------------------------------------------------------------
    for cq in (V20 + '.Request', V20 + '.Response', V20 + '.BatchRequest', V20 + '.BatchResponse'):
        ci = prog.cls(cq)
        v = ci.attrs.get('version')
        known, val = const_value(prog, None, v, ci) if v is not None else (False, None)  # type: ignore[arg-type]
        ck.ob('VERSION-CONST', f'{ci.name}.version == "2.0"', known and val == '2.0', nontrivial=False)
        if not (known and val == '2.0'):
            ck.finding('VERSION-CONST', cq, f'version {val!r}', ci.module.rel, ci.node.lineno, f'{ci.name}.version must be the string "2.0"')
    # ---- SENT-TRUTH over the message model ---------------------------------------------------
    n_conds = 0
    for cq in list(MODEL) + [V20 + '.BatchRequest', V20 + '.BatchResponse']:
        ci = prog.cls(cq)
        for m in ci.methods.values():
            if _is_abstract(m) or m.name.startswith('__') and m.name not in ('__init__',):
                continue
            init = None
            recv = cq
            if m.name == 'from_json':
                init = {env_set(EMPTY_ENV, json_param(m), K_VAL)}
            elif m.kind in ('method', 'property') and m.name != '__init__':
                init = interp.invariant(cq)
            flagged, n = sent_truth(prog, interp, m, init=init, recv=recv, scalar_rule=True)
            n_conds += n
            ck.functions.add(m.qualname)
            if n:
                ck.ob('SENT-TRUTH', f'{short(m.qualname)}: {n} conditions, none a truthiness test of a sentinel-typed value / protocol scalar',
                      not flagged)
            for s, why, kinds in flagged:
                ck.finding('SENT-TRUTH', m.qualname, f'truthiness of {norm(s.expr)} in {s.context}', m.module.rel, s.node.line,
                           f'`{norm(s.expr)}` is used as a truth value ({s.context}); {why}. Kinds here: {sorted(kinds)}',
                           [f'{m.module.rel}:{s.node.line} {norm(s.node.ast)[:110]}'])
    ck.require('SENT-TRUTH', 'conditions examined', n_conds, 25)
    from .wire import ctor_precedence_problems as _cpp
    _ci = prog.cls('pjrpc.common.exceptions.JsonRpcError')
    _pp = _cpp(prog, _ci)
    ck.ob('CTOR-PRECEDENCE', 'JsonRpcError.__init__: a given code / message wins over the class-level default', not _pp)
    # ... and from_json GIVES them: every error object it returns is built with the code, message and data read from the document
    # (a class-level default code is not the code that was on the wire)
    from ..util import bound_args as _bargs
    from ..flow import Flow as _FlowJ
    _fj = prog.func(EXC + '.JsonRpcError.from_json')
    _init = prog.func(EXC + '.JsonRpcError.__init__')
    _cfgj = CFG(_fj, prog)
    _flj = _FlowJ(_cfgj)
    _jp = _fj.params[1].arg if len(_fj.params) > 1 else 'json_data'
    _n_ret = 0
    for _n in _cfgj.stmt_nodes():
        if _n.kind != 'stmt' or not isinstance(_n.ast, ast.Return) or _n.ast.value is None:
            continue
        for _al in _flj.alts(_n, _n.ast.value):
            _v = _al.expr
            if not isinstance(_v, ast.Call):
                continue
            _n_ret += 1
            _ba = _bargs(_init, _v) or {}
            for _member in ('code', 'message', 'data'):
                _e = _ba.get(_member)
                _src = [norm(a2.expr) for a2 in _flj.alts(_al.node or _n, _e)] if _e is not None else []
                _ok = bool(_src) and all(f"'{_member}'" in t for t in _src)
                ck.ob('CTOR-PRECEDENCE', f'JsonRpcError.from_json hands the document\'s `{_member}` to the error it builds', _ok)
                if not _ok:
                    ck.finding('CTOR-PRECEDENCE', _fj.qualname, f'`{_member}` of the document is not given to the constructor', _fj.module.rel, _v.lineno,
                               f'`{norm(_v)[:80]}` builds the error without the `{_member}` read from the document ({_src or "not passed"}): the error comes back '
                               f'with the class default instead — an unregistered wire code deserialised with a base class that has a code of its own '
                               f'(ServerError, -32050) re-serialises as another code')
    ck.require('CTOR-PRECEDENCE', 'error constructions in JsonRpcError.from_json', _n_ret, 1)
    for _c, _m, _l in _pp:
        ck.finding('CTOR-PRECEDENCE', _ci.qualname + '.__init__', _c, _ci.module.rel, _l, _m)
    # ---- REGISTRY + FWD-PARAM ------------------------------------------------------------------
    _registry(ck, prog)
    _pure_observers(ck, prog)
    _fwd_param(ck, prog, 'error_cls')
    _encoder(ck, prog)


def _batch_forms(ck: Check, prog: Program, ci: ClassInfo, elem: str) -> None:
    from ..flow import Flow
    tj, fj = ci.methods['to_json'], ci.methods['from_json']
    ck.functions |= {tj.qualname, fj.qualname}
    ok_w = False
    fields = set()
    cfg = CFG(tj, prog)
    fl = Flow(cfg)
    for n in cfg.stmt_nodes():
        st = n.ast
        if n.kind == 'stmt' and isinstance(st, ast.Return) and st.value is not None:
            for sq in fl.seq(n, st.value):
                if sq.kind != 'iter':
                    continue
                tgt = dotted(sq.target) if sq.target is not None else None
                elt_ok = bool(sq.elt) and all(
                    isinstance(x.expr, ast.Call) and isinstance(x.expr.func, ast.Attribute) and x.expr.func.attr == 'to_json'
                    and not x.expr.args and dotted(x.expr.func.value) == tgt for x in sq.elt)
                if sq.total and not sq.reordered and elt_ok and tgt and (dotted(sq.iter) or '').startswith('self'):
                    ok_w = True
                    fields.add(dotted(sq.iter))
                else:
                    ok_w = False
                    fields.clear()
                    break
    ck.ob('BATCH-FORM', f'{ci.name}.to_json: list of every element\'s wire form in storage order', ok_w)
    if not ok_w:
        ck.finding('BATCH-FORM', tj.qualname, 'batch wire form', tj.module.rel, tj.node.lineno,
                   f'{ci.name}.to_json must return [e.to_json() for e in <stored elements>] without filter or reordering')
    ok_r = False
    cfg = CFG(fj, prog)
    fl = Flow(cfg)
    for n in cfg.stmt_nodes():
        st = n.ast
        if n.kind == 'stmt' and isinstance(st, ast.Return) and isinstance(st.value, ast.Call) and dotted(st.value.func) == 'cls':
            stars = [a.value for a in st.value.args if isinstance(a, ast.Starred)]
            if len(stars) != 1:
                continue
            sqs = fl.seq(n, stars[0])
            if len(sqs) == 1 and sqs[0].kind == 'iter':
                sq = sqs[0]
                tgt = dotted(sq.target) if sq.target is not None else None
                elt_ok = bool(sq.elt) and all(
                    isinstance(x.expr, ast.Call) and isinstance(x.expr.func, ast.Attribute) and x.expr.func.attr == 'from_json'
                    and x.expr.args and dotted(x.expr.args[0]) == tgt for x in sq.elt)
                if sq.total and not sq.reordered and elt_ok and tgt and dotted(sq.iter) == json_param(fj):
                    ok_r = True
    ck.ob('BATCH-FORM', f'{ci.name}.from_json: every element deserialised, in array order', ok_r)
    if not ok_r:
        ck.finding('BATCH-FORM', fj.qualname, 'batch deserialisation form', fj.module.rel, fj.node.lineno,
                   f'{ci.name}.from_json must build the batch from {elem}.from_json(x) for every x of the array, in order')
    # the empty batch: BatchResponse() is constructible and serialises to [], so its reader must accept [] (the request side
    # rejects [] because JSON-RPC 2.0 says so — that one is C06's FIELD-GUARD, and the only emptiness rejection allowed)
    if ci.name == 'BatchResponse':
        from .c06 import raise_edges
        jp_ = json_param(fj)
        rejecting = []
        for c_, e_ in raise_edges(cfg):
            ckd = classify_cond(prog, fj, c_.ast)
            if ckd.subject == jp_ and ((ckd.kind == 'len-cmp' and ckd.detail.replace(' ', '') in (f'len({jp_})==0', f'len({jp_})<1') and e_.label == 'T')
                                       or (ckd.kind == 'truthy' and (e_.label == 'F') != ckd.negated)):
                rejecting.append(c_)
        ck.ob('BATCH-FORM', 'BatchResponse.from_json accepts the empty array (what BatchResponse().to_json() produces)', not rejecting)
        for c_ in rejecting:
            ck.finding('BATCH-FORM', fj.qualname, 'empty batch response rejected', fj.module.rel, c_.line,
                       f'`{norm(c_.ast)}` makes BatchResponse.from_json raise for `[]`, which is exactly the wire form of an empty BatchResponse: '
                       f'the message does not survive serialise -> deserialise')
    # storage: extend appends in order
    ext = ci.methods.get('extend')
    ok_s = False
    if ext is not None:
        par = ext.params[1].arg
        for st in walk_own(ext.node):
            if isinstance(st, ast.Call) and isinstance(st.func, ast.Attribute) and st.func.attr == 'extend' and \
                    dotted(st.func.value) in fields and st.args and dotted(st.args[0]) == par:
                ok_s = True
            # for x in <param>: self._items.append(x)
            if isinstance(st, ast.For) and dotted(st.iter) == par and isinstance(st.target, ast.Name) and not st.orelse:
                apps = [x for b in st.body for x in ast.walk(b) if isinstance(x, ast.Call) and isinstance(x.func, ast.Attribute)
                        and x.func.attr == 'append' and dotted(x.func.value) in fields]
                if len(apps) == 1 and len(apps[0].args) == 1 and dotted(apps[0].args[0]) == st.target.id and \
                        not any(isinstance(x, (ast.If, ast.Continue, ast.Break, ast.Return)) for b in st.body for x in ast.walk(b)):
                    ok_s = True
    ck.ob('BATCH-FORM', f'{ci.name}.extend stores the elements in the order given', ok_s)
    if not ok_s:
        ck.finding('BATCH-FORM', f'{ci.qualname}.extend', 'storage order', ci.module.rel, ext.node.lineno if ext else ci.node.lineno,
                   f'{ci.name}.extend must append the given elements, in order, to the list that to_json serialises')


def _registry_container(ck: Check, prog: Program) -> None:
    """REGISTRY: the code -> class table keeps what was registered: it is a plain dict (a weak-value / bounded / expiring mapping forgets
    classes nobody else references, and the error then deserialises to the base class)."""
    meta = prog.cls(EXC + '.JsonRpcErrorMeta')
    val = meta.attrs.get('__errors_mapping__')
    from ..flow import Flow
    ok = val is not None and (isinstance(val, ast.Dict) and not val.keys or isinstance(val, ast.Call) and dotted(val.func) == 'dict' and not val.args and not val.keywords)
    shown = norm(val) if val is not None else '<missing>'
    if val is not None and isinstance(val, ast.Name):
        ent = prog.module_attr(meta.module, val.id)
        if isinstance(ent, tuple) and len(ent) == 3 and isinstance(ent[2], ast.AST):
            v2 = ent[2]
            ok = isinstance(v2, ast.Dict) and not v2.keys or isinstance(v2, ast.Call) and dotted(v2.func) == 'dict' and not v2.args and not v2.keywords
            shown = norm(v2)
    ck.ob('REGISTRY', 'the code → class table is a plain dict', ok, sample={'table': shown})
    if not ok:
        ck.finding('REGISTRY', meta.qualname, f'registry table is `{shown[:50]}`', meta.module.rel, meta.node.lineno,
                   f'the error-class registry is `{shown}`, not a plain dict: entries can disappear (weak references, eviction), after which a '
                   f'response carrying that code deserialises to the supplied base class and a typed `except` clause no longer matches')


def _pure_observers(ck: Check, prog: Program) -> None:
    """SENT-TRUTH / wire stability: looking at a message does not change it — comparison, length, iteration, indexing, repr/str,
    properties and to_json of the message classes write nothing (effect analysis of each observer's call tree), so serialising
    again gives the identical wire form."""
    from ..effects import Effects
    observers = ('__eq__', '__ne__', '__hash__', '__len__', '__iter__', '__getitem__', '__contains__', '__repr__', '__str__', '__bool__', 'to_json')
    n = 0
    for ci in prog.classes.values():
        if ci.module.name not in (V20, EXC) or ci.name.startswith('_'):
            continue
        roots = [m for m in ci.methods.values() if m.name in observers or m.kind == 'property']
        if not roots:
            continue
        eff = Effects(prog, roots, [ci])
        # parameters typed as the message classes (the `other` of __eq__) are long-lived state too
        ws = [w for w in eff.shared_writes() if w.target.split(':')[0] in ('self', 'param', 'class', 'module')]
        ws = [w for w in ws if w.func.name not in ('__init__', '__new__')]
        n += len(roots)
        ck.ob('PURE-OBSERVE', f'{ci.name}: {len(roots)} observers (comparison, iteration, repr, properties, to_json) write no message state', not ws)
        for w in ws:
            ck.finding('PURE-OBSERVE', w.func.qualname, f'{w.why} on {w.target.split(":")[0]} state: {w.text[:50]}', w.func.module.rel, w.line,
                       f'`{w.text}` modifies the message ({w.target}) while it is only being looked at: element order / content after a '
                       f'comparison or a serialisation differs from what was received, so serialising again gives another wire form')
    ck.require('PURE-OBSERVE', 'observer methods of the message model', n, 30)


def _registry(ck: Check, prog: Program) -> None:
    _registry_container(ck, prog)
    fj = prog.func(EXC + '.JsonRpcError.from_json')
    members = _member_vars(CFG(fj, prog), fj)
    code_var = members.get('code', ('', None))[0]
    gec = None
    ctor_var = None
    for st in walk_own(fj.node):
        if isinstance(st, ast.Assign) and isinstance(st.value, ast.Call) and isinstance(st.value.func, ast.Attribute) and \
                dotted(st.value.func.value) == 'cls' and len(st.targets) == 1 and isinstance(st.targets[0], ast.Name):
            m = prog.find_method(fj.cls, st.value.func.attr)
            if m is not None and m.kind == 'classmethod' and len(st.value.args) == 2:
                gec = (st, m)
                ctor_var = st.targets[0].id
    ok1 = False
    if gec is not None:
        from ..flow import Flow
        from ..util import stmt_node_of
        cfg_fj = CFG(fj, prog)
        gn = stmt_node_of(cfg_fj, gec[0].value)
        a0 = gec[0].value.args[0]
        trail = set()
        if gn is not None:
            for al in Flow(cfg_fj).alts(gn, a0):
                trail |= set(al.names) | {dotted(al.expr) or ''}
        ok1 = (dotted(a0) == code_var or code_var in trail) and dotted(gec[0].value.args[1]) == 'cls'
    ret_ok = False
    for st in walk_own(fj.node):
        if isinstance(st, ast.Return) and isinstance(st.value, ast.Call) and dotted(st.value.func) == ctor_var:
            ret_ok = True
    ck.ob('REGISTRY', 'JsonRpcError.from_json instantiates registry_lookup(code, default=cls)', ok1 and ret_ok)
    if not (ok1 and ret_ok):
        ck.finding('REGISTRY', fj.qualname, 'error class lookup', fj.module.rel, fj.node.lineno,
                   'JsonRpcError.from_json must instantiate the class registered for the validated code, falling back to the class it was '
                   'called on (the supplied base): typed except clauses depend on it')
    if gec is not None:
        m = gec[1]
        from ..flow import Flow as _F2
        cfg_m = CFG(m, prog)
        fl_m = _F2(cfg_m)
        rets_m = [n_ for n_ in cfg_m.stmt_nodes() if n_.kind == 'stmt' and isinstance(n_.ast, ast.Return)]
        ok2 = bool(rets_m)
        for n_ in rets_m:
            alts_m = fl_m.alts(n_, n_.ast.value) if n_.ast.value is not None else []
            if not alts_m:
                ok2 = False
            for al in alts_m:
                v = al.expr
                is_map = lambda e_, at_: any('__errors_mapping__' in norm(b_.expr) for b_ in fl_m.alts(at_, e_))
                good = isinstance(v, ast.Call) and isinstance(v.func, ast.Attribute) and v.func.attr == 'get' and len(v.args) == 2 and \
                    not v.keywords and dotted(v.args[0]) == m.params[1].arg and dotted(v.args[1]) == m.params[2].arg and \
                    is_map(v.func.value, al.node or n_)
                # the same lookup spelled as a membership test: `if code in mapping: return mapping[code]` / `return default`
                member = None
                for c_, pol_ in al.guards:
                    if isinstance(c_, ast.Compare) and len(c_.ops) == 1 and isinstance(c_.ops[0], (ast.In, ast.NotIn)) and \
                            dotted(c_.left) == m.params[1].arg and is_map(c_.comparators[0], (cfg_m.nodes_of(c_) or [n_])[0]):
                        member = isinstance(c_.ops[0], ast.In) == pol_
                if isinstance(v, ast.Subscript) and dotted(v.slice) == m.params[1].arg and is_map(v.value, al.node or n_) and member is True:
                    good = True
                if dotted(v) == m.params[2].arg and member is False:
                    good = True
                if not good:
                    ok2 = False
        ck.ob('REGISTRY', f'{short(m.qualname)} = registry.get(code, default)', ok2)
        if not ok2:
            ck.finding('REGISTRY', m.qualname, 'registry lookup', m.module.rel, m.node.lineno,
                       'the registry lookup must be an exact `.get(code, default)` on the metaclass mapping')
    meta = prog.cls(EXC + '.JsonRpcErrorMeta')
    new = meta.methods.get('__new__')
    ok3 = False
    why = 'no registration statement found'
    if new is not None:
        cfg = CFG(new, prog)
        from ..flow import Flow as _Fl
        fl_new = _Fl(cfg)
        for n in cfg.stmt_nodes():
            a = n.ast
            if isinstance(a, ast.Assign) and isinstance(a.targets[0], ast.Subscript) and \
                    any('__errors_mapping__' in norm(al.expr) for al in fl_new.alts(n, a.targets[0].value)):
                key = a.targets[0].slice
                gs = guard_edges(cfg, n)
                kinds = [(classify_cond(prog, new, g.src.ast), g.label) for g in gs]
                from ..util import canon_dotted
                key_names = {dotted(key), canon_dotted(new, key)} - {None}
                ident = any(c.kind == 'is-none' and c.subject in key_names and (l == 'T') == c.negated for c, l in kinds)
                truthy = any(c.kind == 'truthy' and c.subject in key_names for c, l in kinds)
                # what the key is: `<cls>.code`, or a local holding it / `getattr(<cls>, 'code', None)`
                owner = None
                for kal in fl_new.alts(n, key):
                    kv = kal.expr
                    if dotted(kv) and dotted(kv).endswith('.code'):
                        owner = dotted(kv)[:-5]
                    elif isinstance(kv, ast.Call) and dotted(kv.func) == 'getattr' and len(kv.args) >= 2 and \
                            isinstance(kv.args[1], ast.Constant) and kv.args[1].value == 'code':
                        owner = dotted(kv.args[0])
                if owner is not None and ident and not truthy and dotted(a.value) == owner:
                    ok3 = True
                elif truthy:
                    why = 'registration is guarded by truthiness of the code: an error class with code 0 is never registered'
                else:
                    why = f'registration `{norm(a)}` is not `mapping[cls.code] = cls` under `cls.code is not None`'
    ck.ob('REGISTRY', 'metaclass registers every subclass with a non-None code under its code', ok3)
    if not ok3:
        ck.finding('REGISTRY', meta.qualname + '.__new__', 'registration', meta.module.rel, meta.node.lineno, why)


def _fwd_param(ck: Check, prog: Program, pname: str) -> None:
    ty = types_of(prog)
    funcs = [f for f in from_json_funcs(prog) if any(p.arg == pname for p in f.params)]
    ck.require('FWD-PARAM', f'deserialisers accepting {pname}', len(funcs), 2)
    for f in funcs:
        sc = FuncScope(f, ty)
        for x in walk_own(f.node):
            if not isinstance(x, ast.Call):
                continue
            for k, o in ty.callees(x, sc):
                if k == 'func' and isinstance(o, FuncInfo) and o is not f and any(p.arg == pname for p in o.params) \
                        and not _is_abstract(o):
                    # the receiver itself may be the parameter (error_cls.from_json(...)): that is the forwarding
                    if isinstance(x.func, ast.Attribute) and dotted(x.func.value) == pname:
                        continue
                    idx = [p.arg for p in o.params[1:]].index(pname)
                    passed = any(kw.arg == pname and dotted(kw.value) == pname for kw in x.keywords) or \
                        (len(x.args) > idx and dotted(x.args[idx]) == pname)
                    ck.ob('FWD-PARAM', f'{short(f.qualname)} → {short(o.qualname)}: {pname} forwarded', passed)
                    if not passed:
                        ck.finding('FWD-PARAM', f.qualname, f'{pname} not forwarded to {short(o.qualname)}', f.module.rel, x.lineno,
                                   f'`{norm(x)[:80]}` drops `{pname}`: errors nested in this message are deserialised with the default '
                                   f'base class instead of the class the caller supplied')


def _encoder(ck: Check, prog: Program) -> None:
    enc = prog.cls('pjrpc.common.common.JSONEncoder')
    d = enc.methods.get('default')
    if d is None:
        raise AnalysisError('JSONEncoder.default not found')
    ck.functions.add(d.qualname)
    listed: List[ClassInfo] = []
    ret_ok = False
    from ..flow import Flow
    from ..inline import inlined_program
    prog = inlined_program(prog, [d.qualname])      # `if self._is_protocol_object(o):` is the isinstance test it wraps
    d = prog.func(d.qualname)
    cfg = CFG(d, prog)
    fl = Flow(cfg)
    for n in cfg.nodes:
        if n.kind == 'cond' and isinstance(n.ast, ast.Call) and dotted(n.ast.func) == 'isinstance' and len(n.ast.args) == 2:
            here: List[ClassInfo] = []
            for alt in fl.alts(n, n.ast.args[1]):
                tp = alt.expr
                for e in (tp.elts if isinstance(tp, ast.Tuple) else [tp]):
                    ent = prog.resolve(d.module, e)
                    if isinstance(ent, ClassInfo):
                        here.append(ent)
            obj = dotted(n.ast.args[0])
            # a return of <obj>.to_json() that is reached only when this test held
            for m in cfg.stmt_nodes():
                if m.kind == 'stmt' and isinstance(m.ast, ast.Return) and isinstance(m.ast.value, ast.Call) and \
                        norm(m.ast.value) == f'{obj}.to_json()' and any(g.src is n and g.label == 'T' for g in guard_edges(cfg, m)):
                    ret_ok = True
                    listed += here
    need = []
    for q in (V20, EXC):
        for ci in prog.classes.values():
            if ci.module.name == q and 'to_json' in ci.methods and not _is_abstract(ci.methods['to_json']):
                need.append(ci)
    for ci in need:
        ok = any(l in [x for x in prog.mro(ci) if isinstance(x, ClassInfo)] for l in listed)
        ck.ob('ENC-EXHAUSTIVE', f'JSONEncoder.default covers {ci.name}', ok and ret_ok)
        if not (ok and ret_ok):
            ck.finding('ENC-EXHAUSTIVE', d.qualname, f'{ci.name} not encodable', d.module.rel, d.node.lineno,
                       f'JSONEncoder.default does not delegate {ci.name} objects to to_json(): json.dumps(msg, cls=JSONEncoder) raises TypeError')
    ck.require('ENC-EXHAUSTIVE', 'message classes', len(need), 5)
    # ... and nothing else is encoded by accident: every other return of default() delegates to the base encoder (which raises TypeError
    # for objects it does not know) — a bare `return None` would turn any unencodable parameter / result into null on the wire
    other = []
    for m in cfg.stmt_nodes():
        if m.kind == 'stmt' and isinstance(m.ast, ast.Return):
            v = m.ast.value
            if v is not None and isinstance(v, ast.Call) and norm(v).endswith('.to_json()'):
                continue
            if v is not None and isinstance(v, ast.Call) and isinstance(v.func, ast.Attribute) and v.func.attr == 'default' and \
                    isinstance(v.func.value, ast.Call) and dotted(v.func.value.func) == 'super':
                continue
            other.append(m)
    falls_off = cfg.exit.id in cfg.reachable(cfg.entry, avoid_nodes=[m for m in cfg.stmt_nodes() if isinstance(m.ast, (ast.Return, ast.Raise))],
                                             edge_ok=lambda e: e.label != 'exc')
    ok_rest = not other and not falls_off
    ck.ob('ENC-EXHAUSTIVE', 'JSONEncoder.default hands every other object to the base encoder', ok_rest)
    if not ok_rest:
        line = other[0].line if other else d.node.lineno
        ck.finding('ENC-EXHAUSTIVE', d.qualname, 'unknown objects are not delegated to the base encoder', d.module.rel, line,
                   f'`{norm(other[0].ast) if other else "falling off the end"}`: an object the encoder does not know is serialised as that value (null) instead of '
                   f'raising TypeError, so a message with such a parameter / result does not survive the wire unchanged and nobody is told')


MUTANTS = [
    dict(name='registry-holds-classes-weakly', file='pjrpc/common/exceptions.py',
         find="    __errors_mapping__: Dict[int, Type['JsonRpcError']] = {}", replace="    __errors_mapping__: Dict[int, Type['JsonRpcError']] = weakref.WeakValueDictionary()",
         also=[dict(file='pjrpc/common/exceptions.py', find='import typing\n', replace='import typing\nimport weakref\n')], expect='REGISTRY'),
    dict(name='comparison-sorts-the-batch-in-place', file='pjrpc/common/v20.py', nth=0,
         find='        if not isinstance(other, BatchResponse):\n            return NotImplemented\n',
         replace='        if not isinstance(other, BatchResponse):\n            return NotImplemented\n        self._responses.sort(key=op.attrgetter("id"))\n',
         expect='PURE-OBSERVE'),
    dict(name='empty-batch-response-rejected', file='pjrpc/common/v20.py',
         find='            if not isinstance(json_data, (list, tuple)):\n                raise DeserializationError("data must be of type list")\n',
         replace='            if not isinstance(json_data, (list, tuple)):\n                raise DeserializationError("data must be of type list")\n'
                 '            if len(json_data) == 0:\n                raise DeserializationError("response list is empty")\n', expect='BATCH-FORM'),
    dict(name='data-default-None', file='pjrpc/common/exceptions.py', find="json_data.get('data', UNSET)", replace="json_data.get('data')",
         expect='WIRE-TABLE'),
    dict(name='result-truthiness-to_json', file='pjrpc/common/v20.py', find='        if self._result is not UNSET:\n', replace='        if self._result:\n',
         expect=['WIRE-TABLE', 'SENT-TRUTH']),
    dict(name='omit-falsy-id', file='pjrpc/common/v20.py', find='        if self._id is not None:\n            json_data.update(id=self._id)',
         replace='        if self._id:\n            json_data.update(id=self._id)', expect=['WIRE-TABLE', 'SENT-TRUTH']),
    dict(name='drop-class-from-encoder', file='pjrpc/common/common.py', find='pjrpc.BatchResponse, pjrpc.BatchRequest,', replace='pjrpc.BatchResponse,',
         expect='ENC-EXHAUSTIVE'),
    dict(name='registry-without-default', file='pjrpc/common/exceptions.py', find='return type(cls).__errors_mapping__.get(code, default)',
         replace='return type(cls).__errors_mapping__.get(code, JsonRpcError)', expect='REGISTRY'),
    dict(name='registry-truthy-code', file='pjrpc/common/exceptions.py', find="if hasattr(cls, 'code') and cls.code is not None:",
         replace="if getattr(cls, 'code', None):", expect='REGISTRY'),
    dict(name='swap-result-error-params', file='pjrpc/common/v20.py', find='return cls(id=id, result=result, error=error)',
         replace='return cls(id=id, result=error, error=result)', expect='WIRE-TABLE'),
    dict(name='params-default-None-never-written', file='pjrpc/common/v20.py', find="            json_data.update(params=self._params)",
         replace="            json_data.update(parameters=self._params)", expect='WIRE-TABLE'),
    dict(name='batch-to_json-sorted', file='pjrpc/common/v20.py', find='return [request.to_json() for request in self._requests]',
         replace='return [request.to_json() for request in sorted(self._requests, key=str)]', expect='BATCH-FORM'),
    dict(name='version-21', file='pjrpc/common/v20.py', nth=0, find="    version: ClassVar[str] = '2.0'", replace="    version: ClassVar[str] = '2.1'",
         expect=['VERSION-CONST', 'WIRE-TABLE']),
    dict(name='reintroduce-D6-error_cls-dropped', file='pjrpc/common/v20.py', find='Response.from_json(item, error_cls=error_cls)',
         replace='Response.from_json(item)', expect='FWD-PARAM'),
]
