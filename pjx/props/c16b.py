"""C16, continued: the JSON-RPC envelope schemas (specs/schemas.py) and the `$ref` spelling of reference objects.

TEMPLATE-PATH  every constant subscript path that build_request_schema / build_response_schema read from a copy of one of the
               module's schema templates exists in that template (a misspelt key is a KeyError on every generation that gets
               there — e.g. only for methods with declared errors, which is why no test notices).
SCHEMA-VOCAB   the templates and the schema displays those functions build use JSON-Schema keywords only, walked by schema
               position (the names under `properties` are free, what is under them is a schema again): an unknown keyword is
               ignored by every validator, so the part of the envelope it was meant to constrain is not constrained, and it is
               rejected by the OpenAPI 3.0 meta-schema.
REF-KEY        a specification `Reference` object is emitted under the key `$ref`: the two-statement idiom in `__post_init__`
               (bind `__dict__['$ref']` from the declared field, rename the dataclass field so that `dataclasses.asdict` reads it)
               is complete, spelt `$ref`, and the same in the OpenAPI and the OpenRPC module.
"""
from __future__ import annotations

import ast
from typing import Dict, List, Optional, Set, Tuple

from ..cfg import CFG
from ..flow import Flow
from ..model import AnalysisError, ClassInfo, FuncInfo, Program, dotted, norm
from ..report import Check
from ..types import walk_own
from ..util import short

SCHEMAS = 'pjrpc.server.specs.schemas'
VOCAB = {'$schema', '$id', '$ref', '$defs', 'definitions', '$comment', '$anchor', 'title', 'description', 'default', 'examples', 'example',
         'deprecated', 'readOnly', 'writeOnly', 'type', 'enum', 'const', 'multipleOf', 'maximum', 'exclusiveMaximum', 'minimum',
         'exclusiveMinimum', 'maxLength', 'minLength', 'pattern', 'items', 'prefixItems', 'additionalItems', 'contains', 'maxItems',
         'minItems', 'uniqueItems', 'maxProperties', 'minProperties', 'required', 'properties', 'patternProperties',
         'additionalProperties', 'propertyNames', 'dependentRequired', 'dependentSchemas', 'dependencies', 'allOf', 'anyOf', 'oneOf',
         'not', 'if', 'then', 'else', 'format', 'contentEncoding', 'contentMediaType', 'nullable', 'discriminator', 'xml',
         'externalDocs', 'unevaluatedProperties', 'unevaluatedItems', 'minContains', 'maxContains'}
MAP_OF_SCHEMAS = {'properties', 'patternProperties', '$defs', 'definitions', 'dependentSchemas'}
LIST_OF_SCHEMAS = {'allOf', 'anyOf', 'oneOf', 'prefixItems'}
ONE_SCHEMA = {'items', 'additionalProperties', 'not', 'if', 'then', 'else', 'contains', 'propertyNames', 'additionalItems',
              'unevaluatedProperties', 'unevaluatedItems'}


def _templates(prog: Program) -> Dict[str, ast.Dict]:
    m = prog.modules.get(SCHEMAS)
    if m is None:
        raise AnalysisError(f'module {SCHEMAS} not found')
    out: Dict[str, ast.Dict] = {}
    for st in m.tree.body:
        tg = st.targets[0] if isinstance(st, ast.Assign) and len(st.targets) == 1 else st.target if isinstance(st, ast.AnnAssign) else None
        if isinstance(tg, ast.Name) and isinstance(getattr(st, 'value', None), ast.Dict):
            out[tg.id] = st.value
    return out


def _vocab_walk(d: ast.Dict, where: str, out: List[Tuple[int, str, str]]) -> None:
    for k, v in zip(d.keys, d.values):
        if k is None or not (isinstance(k, ast.Constant) and isinstance(k.value, str)):
            continue
        kw = k.value
        if kw not in VOCAB and not kw.startswith('x-'):
            out.append((k.lineno, kw, where))
            continue
        if kw in MAP_OF_SCHEMAS and isinstance(v, ast.Dict):
            for k2, v2 in zip(v.keys, v.values):
                if isinstance(v2, ast.Dict):
                    _vocab_walk(v2, f'{where}.{kw}.{k2.value if isinstance(k2, ast.Constant) else "?"}', out)
        elif kw in LIST_OF_SCHEMAS and isinstance(v, (ast.List, ast.Tuple)):
            for i, e in enumerate(v.elts):
                if isinstance(e, ast.Dict):
                    _vocab_walk(e, f'{where}.{kw}[{i}]', out)
        elif kw in ONE_SCHEMA and isinstance(v, ast.Dict):
            _vocab_walk(v, f'{where}.{kw}', out)


def _const_path(e: ast.expr) -> Tuple[ast.expr, List[str], bool]:
    """root expression, constant keys from the root outwards, all keys constant?"""
    keys: List[str] = []
    ok = True
    while isinstance(e, ast.Subscript):
        if isinstance(e.slice, ast.Constant) and isinstance(e.slice.value, str):
            keys.append(e.slice.value)
        else:
            ok = False
            keys.append('?')
        e = e.value
    return e, list(reversed(keys)), ok


def _walk_template(d: ast.expr, keys: List[str]) -> Tuple[bool, Optional[str]]:
    cur: ast.expr = d
    for k in keys:
        if not isinstance(cur, ast.Dict):
            return True, None       # not a display any more (a value filled in elsewhere): nothing is claimed
        nxt = None
        for k2, v2 in zip(cur.keys, cur.values):
            if k2 is None:
                return True, None   # `**other` inside the template: keys not enumerable
            if isinstance(k2, ast.Constant) and k2.value == k:
                nxt = v2
        if nxt is None:
            return False, k
        cur = nxt
    return True, None


def schema_templates(ck: Check, prog: Program) -> None:
    tpl = _templates(prog)
    m = prog.modules[SCHEMAS]
    if not tpl:
        # the templates are not written as displays (built by a function, loaded from a file, …): what they contain is not read
        ck.not_decided.append('specs/schemas.py: the envelope schema templates are not dictionary displays; TEMPLATE-PATH / SCHEMA-VOCAB not decided')
        ck.ob('SCHEMA-VOCAB', 'schema templates are displays', True, nontrivial=False)
        return
    bad: List[Tuple[int, str, str]] = []
    for name, d in sorted(tpl.items()):
        _vocab_walk(d, name, bad)
    funcs = [f for f in prog.iter_funcs() if f.module is m and f.parent is None and f.cls is None and
             isinstance(f.node, (ast.FunctionDef, ast.AsyncFunctionDef))]
    n_paths = 0
    path_bad: List[Tuple[FuncInfo, int, str, str]] = []
    for f in funcs:
        ck.functions.add(f.qualname)
        cfg = CFG(f, prog)
        fl = Flow(cfg)
        stored: Set[Tuple[str, ...]] = set()

        def root_paths(n, e: ast.expr, depth: int = 0) -> Optional[List[Tuple[str, List[str]]]]:
            """[(template, keys)] the expression denotes, or None when it is not (only) template-derived"""
            root, keys, ok = _const_path(e)
            if not ok:
                return None
            if isinstance(root, ast.Call):
                d_ = dotted(root.func) or ''
                if d_.rsplit('.', 1)[-1] in ('deepcopy', 'copy', 'dict') and len(root.args) == 1 and not root.keywords:
                    inner = root_paths(n, root.args[0], depth + 1)
                    return [(t, k + keys) for t, k in inner] if inner is not None else None
                if isinstance(root.func, ast.Attribute) and root.func.attr == 'copy' and not root.args:
                    inner = root_paths(n, root.func.value, depth + 1)
                    return [(t, k + keys) for t, k in inner] if inner is not None else None
                return None
            if isinstance(root, ast.Name):
                if root.id in tpl and not fl.defs_at(n, root.id):
                    return [(root.id, keys)]
                if depth > 4:
                    return None
                out: List[Tuple[str, List[str]]] = []
                alts = fl.alts(n, root)
                if not alts or any(al.expr is root for al in alts):
                    return None
                for al in alts:
                    inner = root_paths(al.node or n, al.expr, depth + 1)
                    if inner is None:
                        return None
                    out += [(t, k + keys) for t, k in inner]
                return out
            return None
        subs: List[Tuple[object, ast.Subscript]] = []
        for n in cfg.stmt_nodes():
            if n.ast is None:
                continue
            top = n.ast.test if n.kind == 'cond' and hasattr(n.ast, 'test') else n.ast
            for x in ast.walk(top) if not isinstance(top, (ast.FunctionDef, ast.AsyncFunctionDef, ast.ClassDef)) else []:
                if isinstance(x, ast.Subscript):
                    subs.append((n, x))
        for n, x in subs:
            if isinstance(x.ctx, ast.Store):
                rp = root_paths(n, x)
                for t, keys in rp or []:
                    stored.add((t,) + tuple(keys))
        for n, x in subs:
            if not isinstance(x.ctx, ast.Load):
                continue
            rp = root_paths(n, x)
            if not rp:
                continue
            n_paths += 1
            missing = []
            for t, keys in rp:
                if any((t,) + tuple(keys[:i]) in stored for i in range(1, len(keys) + 1)):
                    continue
                ok, k = _walk_template(tpl[t], keys)
                if not ok:
                    missing.append((t, keys, k))
            if missing and len(missing) == len(rp):
                t, keys, k = missing[0]
                path_bad.append((f, x.lineno, f'`{norm(x)[:60]}`: no key {k!r} in {t}',
                                 f'`{norm(x)}` in {short(f.qualname)} reads {t}{"".join("[" + repr(z) + "]" for z in keys)} from a copy of the template, '
                                 f'which has no key {k!r} there: KeyError whenever this line runs, so no document is generated for a method '
                                 f'that gets here (one with declared errors / parameters)'))
        # displays the function builds as (parts of) schemas: the returned value and what is stored into a template copy
        disp: List[Tuple[ast.Dict, str]] = []
        for n in cfg.stmt_nodes():
            if n.kind != 'stmt':
                continue
            if isinstance(n.ast, ast.Return) and n.ast.value is not None:
                for al in fl.alts(n, n.ast.value):
                    if isinstance(al.expr, ast.Dict):
                        disp.append((al.expr, f'{f.name}()'))
            elif isinstance(n.ast, ast.Assign) and isinstance(n.ast.targets[0], ast.Subscript) and isinstance(n.ast.value, ast.Dict):
                rp = root_paths(n, n.ast.targets[0])
                if rp:
                    # the name stored under `properties` is free: what is stored there is a schema
                    disp.append((n.ast.value, f'{f.name}(): {norm(n.ast.targets[0])[:50]}'))
        for d, where in disp:
            if all(isinstance(k, ast.Constant) and isinstance(k.value, str) for k in d.keys if k is not None):
                _vocab_walk(d, where, bad)
    ck.ob('TEMPLATE-PATH', f'{n_paths} constant subscript paths read from template copies exist in the templates', not path_bad, nontrivial=n_paths > 0)
    if len(tpl) >= 3:
        ck.require('TEMPLATE-PATH', 'template paths read by the envelope builders', n_paths, 3)
    for f, line, construct, msg in path_bad:
        ck.finding('TEMPLATE-PATH', f.qualname, construct, f.module.rel, line, msg)
    ck.ob('SCHEMA-VOCAB', f'{len(tpl)} templates and the displays of {len(funcs)} builders use JSON-Schema keywords only', not bad)
    for line, kw, where in bad:
        ck.finding('SCHEMA-VOCAB', SCHEMAS, f'unknown schema keyword {kw!r}', m.rel, line,
                   f'{where}: {kw!r} is not a JSON-Schema keyword: validators ignore it, so what it was meant to say about the JSON-RPC envelope '
                   f'(which alternatives a response may take, which members are required, …) is not said, and the OpenAPI 3.0 meta-schema '
                   f'rejects the document')


def reference_key(ck: Check, prog: Program) -> None:
    records: Dict[str, Tuple[Set[Tuple[str, str]], Set[Tuple[str, str]], ClassInfo]] = {}
    for q in ('pjrpc.server.specs.openapi.Reference', 'pjrpc.server.specs.openrpc.Reference'):
        ci = prog.classes.get(q)
        if ci is None:
            continue
        pi = ci.methods.get('__post_init__')
        stores: Set[Tuple[str, str]] = set()
        renames: Set[Tuple[str, str]] = set()
        if pi is not None:
            ck.functions.add(pi.qualname)
            me = pi.node.args.args[0].arg if pi.node.args.args else 'self'
            for st in walk_own(pi.node):
                if isinstance(st, ast.Assign) and len(st.targets) == 1:
                    t, v = st.targets[0], st.value
                    if isinstance(t, ast.Subscript) and dotted(t.value) == f'{me}.__dict__' and isinstance(t.slice, ast.Constant):
                        src_ = None
                        if isinstance(v, ast.Subscript) and dotted(v.value) == f'{me}.__dict__' and isinstance(v.slice, ast.Constant):
                            src_ = v.slice.value
                        elif isinstance(v, ast.Attribute) and dotted(v.value) == me:
                            src_ = v.attr
                        stores.add((t.slice.value, src_ or norm(v)))
                    elif isinstance(t, ast.Attribute) and t.attr == 'name' and isinstance(t.value, ast.Subscript) and \
                            (dotted(t.value.value) or '').endswith('__dataclass_fields__') and isinstance(t.value.slice, ast.Constant):
                        renames.add((t.value.slice.value, v.value if isinstance(v, ast.Constant) else norm(v)))
        records[q] = (stores, renames, ci)
    if not records:
        return
    for q, (stores, renames, ci) in records.items():
        if not stores and not renames:
            continue
        fields = set(ci.attr_ann)
        problems = []
        if stores != {('$ref', 'ref')}:
            problems.append(f'`__dict__` binds {sorted(stores) or "nothing"}; dataclasses.asdict reads the renamed field with getattr(obj, "$ref"), so '
                            f'`self.__dict__["$ref"] = self.__dict__["ref"]` is what makes the value available (AttributeError during generation otherwise)')
        if renames != {('ref', '$ref')}:
            problems.append(f'the field renames are {sorted(renames) or "missing"}; the declared field `ref` must be emitted under the JSON reference '
                            f'keyword `$ref` (a document saying {{"ref": …}} has no reference there: it does not validate against the meta-schema and '
                            f'nothing resolves it)')
        if 'ref' not in fields:
            problems.append('the dataclass has no field `ref`')
        ck.ob('REF-KEY', f'{short(q)}: emitted as {{"$ref": <ref>}}', not problems)
        pi = ci.methods.get('__post_init__')
        for msg in problems:
            ck.finding('REF-KEY', q + '.__post_init__', 'reference object is not emitted under `$ref`', ci.module.rel,
                       pi.node.lineno if pi is not None else ci.node.lineno, f'{short(q)}: {msg}')
    idioms = {q: (tuple(sorted(s)), tuple(sorted(r))) for q, (s, r, _) in records.items()}
    if len(records) == 2:
        same = len(set(idioms.values())) == 1
        ck.ob('REF-KEY', 'the OpenAPI and the OpenRPC Reference objects are emitted the same way', same, sample={k.rsplit('.', 2)[-2]: v for k, v in idioms.items()})
        if not same and not any(f.rule == 'REF-KEY' for f in ck.findings):
            q = sorted(records)[1]
            ci = records[q][2]
            ck.finding('REF-KEY', 'pjrpc.server.specs', 'the two Reference classes differ', ci.module.rel, ci.node.lineno,
                       f'{idioms}: one of the two document kinds emits its references under another key than `$ref`')
