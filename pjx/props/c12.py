"""C12 — middlewares and error handlers run once per request, in the declared order."""
from __future__ import annotations

from ..model import Program
from ..report import Check
from ..util import short
from . import c01
from .common import dispatchers
from .dfacts import batch_facts, eh_fold_facts, mw_fold_facts, rejection_facts


def run(ck: Check, prog: Program) -> None:
    from .common import dispatcher_program
    prog = dispatcher_program(prog)
    roles = dispatchers(prog)
    ck.explain('Structural fold rules: the constructor folds partial(middleware, handler=chain) over reversed(middlewares) '
               'starting from the own per-element handler, and that one attribute is what both dispatch branches call, once '
               'per element and whatever it returns is what the batch carries — only UNSET results are dropped (C02 rules reused); the error-handler loop iterates chain(generic, per-code) evaluated once, '
               'threads the error through every call, its result is what the response carries, it is reachable only from '
               'except edges and is not guarded by the notification test; dispatch\'s rejection branches never touch the handlers.')
    ck.assume('middlewares call `handler` at most once (user code)')
    ck.not_decided.append('what user middlewares / error handlers do with the request')
    interp = c01.make_interp(prog, roles)
    for r in roles:
        half = short(r.dispatch.qualname).split('.')[0]
        ck.functions |= {r.init.qualname, r.handle_request.qualname, r.dispatch.qualname}
        for rule_group, (facts, problems) in (('MW-FOLD', mw_fold_facts(prog, r)), ('EH', eh_fold_facts(prog, interp, r)),
                                              ('REJ', rejection_facts(prog, r)), ('BATCH', batch_facts(prog, r))):
            rules = {'MW-FOLD': ['MW-FOLD'], 'EH': ['EH-FOLD', 'EH-REACH'], 'REJ': ['EH-REACH'],
                     'BATCH': ['PER-ELEMENT-ONCE', 'SAME-CHAIN', 'FILTER-UNSET']}[rule_group]
            for rule in rules:
                bad = [p for p in problems if p[0] == rule]
                ck.ob(rule, f'{half}: {rule} ({rule_group})', not bad, sample={'facts': facts})
            for rule, construct, line, msg in problems:
                if rule in rules:
                    ck.finding(rule, f'{r.cls.qualname}.<middleware/error-handler wiring>', construct, r.dispatch.module.rel, line, msg)
    # "the handlers registered for the raised error's code": the code looked up is the code the error was raised with — the error
    # object keeps a falsy code (0) instead of replacing it by the class default
    from . import borrow
    borrow(ck, prog, 'C03', {'VERBATIM-CTOR'}, 'the per-code handler table is indexed by the code the error carries')


MUTANTS = [
    dict(name='chain-folded-over-the-constructor-argument', file='pjrpc/server/dispatcher.py', all=True,
         find='for middleware in reversed(self._middlewares):', replace='for middleware in reversed(tuple(middlewares)):', expect='MW-FOLD'),
    dict(name='drop-reversed', file='pjrpc/server/dispatcher.py', nth=0,
         find='for middleware in reversed(self._middlewares):', replace='for middleware in self._middlewares:', expect='MW-FOLD'),
    dict(name='per-code-before-generic', file='pjrpc/server/dispatcher.py', nth=1,
         find='it.chain(self._error_handlers.get(None, []), self._error_handlers.get(error.code, []))',
         replace='it.chain(self._error_handlers.get(error.code, []), self._error_handlers.get(None, []))', expect='EH-FOLD'),
    dict(name='fold-var-not-reassigned', file='pjrpc/server/dispatcher.py',
         find='            error = error_handler(request, context, error)', replace='            error_handler(request, context, error)', expect='EH-FOLD'),
    dict(name='handlers-skipped-for-notifications', file='pjrpc/server/dispatcher.py', nth=0,
         find='        for error_handler in it.chain(self._error_handlers.get(None, []), self._error_handlers.get(error.code, [])):\n            error = error_handler(request, context, error)\n\n        if request.id is None:\n            return UNSET\n',
         replace='        if request.id is None:\n            return UNSET\n\n        for error_handler in it.chain(self._error_handlers.get(None, []), self._error_handlers.get(error.code, [])):\n            error = error_handler(request, context, error)\n',
         expect='EH-REACH'),
    dict(name='middleware-gets-raw-handler', file='pjrpc/server/dispatcher.py', nth=0,
         find='self._request_handler = ft.partial(middleware, handler=self._request_handler)',
         replace='self._request_handler = ft.partial(middleware, handler=self._handle_request)', expect='MW-FOLD'),
    dict(name='single-branch-bypasses-middlewares', file='pjrpc/server/dispatcher.py',
         find='                response = self._request_handler(request, context)\n', replace='                response = self._handle_request(request, context)\n',
         expect=['SAME-CHAIN']),
    dict(name='generic-only-for-internal', file='pjrpc/server/dispatcher.py', nth=0,
         find='it.chain(self._error_handlers.get(None, []), self._error_handlers.get(error.code, []))',
         replace='it.chain(self._error_handlers.get(error.code, []))', expect='EH-FOLD'),
    dict(name='middleware-response-for-notification-dropped', file='pjrpc/server/dispatcher.py', nth=0,
         find='responses = [resp for resp in results if resp]', replace='responses = [resp for req, resp in zip(request, results) if resp and not req.is_notification]',
         expect='FILTER-UNSET'),
]
