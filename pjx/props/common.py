"""Role anchors shared by the property rule sets (found by structure, never by line number)."""
from __future__ import annotations

import ast
from dataclasses import dataclass
from typing import Dict, List, Optional, Set, Tuple

from ..absint import Config, Interp
from ..cfg import CFG, Node
from ..model import AnalysisError, ClassInfo, FuncInfo, Program, dotted, norm
from ..prov import Prov
from ..types import FuncScope, Scope, types_of, walk_own
from ..util import calls_in, stmt_node_of

BASE_DISPATCHER = 'pjrpc.server.dispatcher.BaseDispatcher'
V20 = 'pjrpc.common.v20'
EXC = 'pjrpc.common.exceptions'
UNSET_Q = 'pjrpc.common.common.UnsetType'


@dataclass
class DispatcherRoles:
    cls: ClassInfo
    dispatch: FuncInfo
    slot: str                       # attribute holding the (middleware-wrapped) per-element handler
    handle_request: FuncInfo        # per-element catch-all
    handle_rpc_request: FuncInfo    # builds the success response
    handle_rpc_method: FuncInfo     # lookup, bind, invoke
    init: FuncInfo

    @property
    def chain(self) -> List[FuncInfo]:
        return [self.dispatch, self.handle_request, self.handle_rpc_request, self.handle_rpc_method]


def dispatchers(prog: Program) -> List[DispatcherRoles]:
    base = prog.cls(BASE_DISPATCHER)
    ty = types_of(prog)
    out: List[DispatcherRoles] = []
    for ci in prog.subclasses(base, strict=True):
        d = ci.methods.get('dispatch')
        if d is None:
            continue
        sc = FuncScope(d, ty)
        # the slot call: self.<attr>(request, context) whose targets include an own method and user code
        slot = None
        h1: Optional[FuncInfo] = None
        for x in walk_own(d.node):
            if isinstance(x, ast.Call) and isinstance(x.func, ast.Attribute) and isinstance(x.func.value, ast.Name) \
                    and x.func.value.id == 'self' and prog.find_method(ci, x.func.attr) is None:
                tg = ty.callees(x, sc)
                own = [o for k, o in tg if k == 'func' and isinstance(o, FuncInfo) and o.cls is ci]
                # the slot is an instance attribute initialised with an own method (and re-assigned by the middleware fold)
                if own and len(x.args) + len(x.keywords) == 2:
                    slot, h1 = x.func.attr, own[0]
        if slot is None or h1 is None:
            raise AnalysisError(f'{ci.qualname}.dispatch: per-element handler slot call not found')
        h2 = _single_self_callee(prog, h1, ci, 'per-element handler')
        h3 = _single_self_callee(prog, h2, ci, 'rpc-request handler')
        init = ci.methods.get('__init__')
        if init is None:
            raise AnalysisError(f'{ci.qualname}: no __init__')
        out.append(DispatcherRoles(ci, d, slot, h1, h2, h3, init))
    if len(out) < 2:
        raise AnalysisError(f'expected the synchronous and the asynchronous dispatcher, found {len(out)}')
    return out


def dispatcher_program(prog: Program) -> Program:
    """The program with private same-module helpers inlined into the dispatcher's role functions (dispatch, the three
    per-element handlers, __init__), so that `_parse_request(text)` or `_apply_error_handlers(...)` extracted from them is
    still seen as part of them.  The role functions themselves are never inlined into each other."""
    from ..inline import inlined_program
    roles = dispatchers(prog)
    callers: List[str] = []
    for r in roles:
        callers += [f.qualname for f in r.chain] + [r.init.qualname]
    return inlined_program(prog, callers)


def _single_self_callee(prog: Program, f: FuncInfo, ci: ClassInfo, what: str) -> FuncInfo:
    ty = types_of(prog)
    sc = FuncScope(f, ty)
    cands: List[FuncInfo] = []
    for x in walk_own(f.node):
        if isinstance(x, ast.Call) and isinstance(x.func, ast.Attribute) and isinstance(x.func.value, ast.Name) \
                and x.func.value.id == 'self':
            for k, o in ty.callees(x, sc):
                if k == 'func' and isinstance(o, FuncInfo) and o.cls is ci and o not in cands:
                    cands.append(o)
    if len(cands) > 1:
        # helpers may have been extracted: the next link of the chain is the callee that (transitively) reaches the
        # registry lookup / bind, i.e. the one through which the method is invoked
        def reaches_bind(g: FuncInfo, seen: Set[str]) -> bool:
            if g.qualname in seen:
                return False
            seen.add(g.qualname)
            sc2 = FuncScope(g, ty)
            for y in walk_own(g.node):
                if isinstance(y, ast.Call):
                    if isinstance(y.func, ast.Attribute) and y.func.attr == 'bind':
                        return True
                    for k, o in ty.callees(y, sc2):
                        if k == 'func' and isinstance(o, FuncInfo) and o.cls is ci and reaches_bind(o, seen):
                            return True
            return False
        narrowed = [c for c in cands if reaches_bind(c, set())]
        if len(narrowed) == 1:
            return narrowed[0]
    if len(cands) != 1:
        raise AnalysisError(f'{f.qualname}: expected exactly one own-method callee of the {what}, found '
                            f'{[c.name for c in cands]}')
    return cands[0]


def config_param_policy(prog: Program, roles: List[DispatcherRoles]):
    """User-call policy for the dispatcher properties: callables that originate from *constructor
    parameters of the dispatcher* (middlewares, error handlers, loaders) are configuration and are
    assumed total by the properties' provisos; everything else (registered methods) may raise any
    Exception."""
    prov = Prov(prog)
    family: Set[str] = {BASE_DISPATCHER}
    for r in roles:
        family.add(r.cls.qualname)

    def policy(f: FuncInfo, call: ast.Call, scope: Scope) -> Optional[Set[str]]:
        org = prov.origins(call.func, f)
        if not org:
            return None
        for o in org:
            if o[0] == 'param' and o[1] in family and o[2] == '__init__':
                continue
            if o[0] in ('selfmeth', 'lit'):
                continue
            return None
        return set()
    return policy


def response_ctor_calls(prog: Program, f: FuncInfo, cls_names: Tuple[str, ...] = (V20 + '.Response',)) -> List[ast.Call]:
    ty = types_of(prog)
    sc = FuncScope(f, ty)
    out = []
    for x in walk_own(f.node):
        if isinstance(x, ast.Call):
            for k, o in ty.callees(x, sc):
                if k == 'ctor' and isinstance(o, ClassInfo) and o.qualname in cls_names:
                    out.append(x)
                    break
    return out


def kwarg(call: ast.Call, name: str, pos: Optional[int] = None) -> Optional[ast.expr]:
    for kw in call.keywords:
        if kw.arg == name:
            return kw.value
    if pos is not None and len(call.args) > pos and not any(isinstance(a, ast.Starred) for a in call.args[:pos + 1]):
        return call.args[pos]
    return None


def floc(f: FuncInfo, node: Optional[ast.AST] = None) -> Tuple[str, int]:
    return f.module.rel, getattr(node, 'lineno', f.node.lineno) if node is not None else f.node.lineno


def ctor_forwarding(prog: Program, ci) -> Tuple[List[str], List[Tuple[int, str]]]:
    """(options forwarded, problems): every parameter of `ci.__init__` that the base class constructor also takes is handed to
    `super().__init__` under its own name, as itself.  An option that is accepted but not forwarded is silently ignored (the base
    class default is used instead)."""
    from ..model import ClassInfo
    init = ci.methods.get('__init__')
    if init is None:
        return [], []
    base_init = None
    for c in prog.mro(ci)[1:]:
        if isinstance(c, ClassInfo) and '__init__' in c.methods:
            base_init = c.methods['__init__']
            break
    if base_init is None:
        return [], []
    own = [p.arg for p in init.params[1:]]
    base_p = {p.arg for p in base_init.params[1:]}
    calls = [x for x in walk_own(init.node) if isinstance(x, ast.Call) and isinstance(x.func, ast.Attribute) and x.func.attr == '__init__'
             and isinstance(x.func.value, ast.Call) and dotted(x.func.value.func) == 'super']
    if len(calls) != 1:
        return [], [(init.node.lineno, f'{len(calls)} super().__init__ calls')]
    call = calls[0]
    if any(k.arg is None for k in call.keywords) or any(isinstance(a, ast.Starred) for a in call.args):
        return sorted(set(own) & base_p), []        # **kwargs forwarding: everything goes through
    passed = {k.arg: k.value for k in call.keywords}
    bpos = [p.arg for p in base_init.node.args.args[1:]]
    for i, a in enumerate(call.args):
        if i < len(bpos):
            passed[bpos[i]] = a
    fwd, problems = [], []
    for name in own:
        if name not in base_p:
            continue
        v = passed.get(name)
        if v is None:
            problems.append((call.lineno, f'constructor option `{name}` is accepted by {ci.name} but not handed to {base_init.cls.name}.__init__: it is '
                             f'silently ignored and the default is used'))
        elif not (isinstance(v, ast.Name) and v.id == name):
            problems.append((call.lineno, f'constructor option `{name}` is forwarded as `{norm(v)[:50]}`, not as given'))
        else:
            fwd.append(name)
    return sorted(fwd), problems


def decorator_protocol_problems(prog: Program, reg_m: FuncInfo) -> List[str]:
    """A method usable both as `@m` and as `@m(...)`: the inner decorator returns its argument on every path; the outer returns the
    inner decorator when called without a subject and the decorated subject (`decorator(subject)`) otherwise."""
    inner = [g for g in reg_m.nested.values() if isinstance(g.node, (ast.FunctionDef, ast.AsyncFunctionDef))]
    probs_d = []
    if len(inner) != 1:
        probs_d.append(f'{len(inner)} inner decorators')
    else:
        dec = inner[0]
        subj = dec.params[0].arg if dec.params else None
        rets = [x for x in walk_own(dec.node) if isinstance(x, ast.Return)]
        falls_off = not rets
        if falls_off or any(x.value is None or dotted(x.value) != subj for x in rets):
            probs_d.append(f'the inner decorator does not return the {subj} it decorates on every path')
        inner_nodes = {id(y) for y in ast.walk(dec.node)}
        outer_rets = [x for x in walk_own(reg_m.node) if isinstance(x, ast.Return) and id(x) not in inner_nodes]
        first = reg_m.params[1].arg if len(reg_m.params) > 1 else None
        kinds_ = set()
        from ..flow import Flow as _FlowD
        from ..util import stmt_node_of as _sno
        cfg_d = CFG(reg_m, prog)
        fl_d = _FlowD(cfg_d)
        from ..util import classify_cond as _cc, guard_edges as _ge

        def is_dec(e: ast.AST, n_) -> bool:
            if isinstance(e, ast.Name) and e.id == dec.name:
                return True
            if isinstance(e, ast.Name) and n_ is not None:
                al_ = fl_d.alts(n_, e)
                return bool(al_) and all(isinstance(a.expr, ast.Name) and a.expr.id == dec.name for a in al_)
            return False
        for x in outer_rets:
            n_x = _sno(cfg_d, x.value) if x.value is not None else None
            leaves = [al.expr for al in fl_d.alts(n_x, x.value)] if (n_x is not None and x.value is not None) else [x.value]
            for v in leaves:
                if is_dec(v, n_x):
                    kinds_.add('decorator')
                elif isinstance(v, ast.Call) and is_dec(v.func, n_x) and [dotted(a) for a in v.args] == [first]:
                    kinds_.add('decorated')
                elif isinstance(v, ast.Name) and v.id == first and n_x is not None and any(
                        (k_.kind == 'is-none' and k_.subject == first and ((g_.label == 'T') == k_.negated)) or
                        (k_.kind == 'truthy' and k_.subject == first and ((g_.label == 'T') != k_.negated))
                        for g_ in _ge(cfg_d, n_x) for k_ in [_cc(prog, reg_m, g_.src.ast)]):
                    # the subject itself, handed back where it is known to be given (the decoration done in place)
                    kinds_.add('decorated')
                else:
                    probs_d.append(f'`{norm(x)[:50]}` returns neither the decorator nor the decorated {first}')
        if not probs_d and kinds_ != {'decorator', 'decorated'}:
            probs_d.append(f'only the form(s) {sorted(kinds_)} are returned')
    return probs_d
