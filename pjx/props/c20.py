"""C20 — the pytest mocker answers as configured: round-robin, once, recorded."""
from __future__ import annotations

import ast
from typing import Dict, List, Optional, Set, Tuple

from ..absint import EMPTY_ENV, Config, Interp, env_set, K_VAL
from ..cfg import CFG, Edge, Node, run_typestate, witness
from ..model import AnalysisError, ClassInfo, FuncInfo, Program, dotted, norm
from ..report import Check
from ..types import FuncScope, types_of, walk_own
from ..util import assigned_names, calls_in, classify_cond, guard_edges, short
from .common import kwarg
from .sentinel import sent_truth

MOCKER = 'pjrpc.client.integrations.pytest.PjRpcMocker'


def run(ck: Check, prog: Program) -> None:
    ck.explain('Per-operation structural rules of the mocker: _match_request removes the head patch and re-appends it at the tail iff '
               'not `once`, then cleans emptied keys; every path that returns a matched reply passes exactly one recording call with the '
               'request\'s params (typestate); the reply id is the request id, falling back to the configured id only when the request '
               'id is None (no truthiness on the protocol scalar); unpatched method → MethodNotFoundError with the request id; unpatched '
               'endpoint → passthrough or ConnectionRefusedError; batches loop over the elements once, in order.')
    ck.not_decided.append('the history state space (replace/remove interleavings) beyond these per-operation effects')
    ci = prog.cls(MOCKER)
    mr = ci.methods.get('_match_request')
    onr = ci.methods.get('_on_request')
    if mr is None or onr is None:
        raise AnalysisError('PjRpcMocker._match_request / _on_request not found')
    # helpers extracted from the two operations (e.g. a shared "call with params" function) are looked at as part of them;
    # _cleanup_matches is an anchor of its own and stays a call
    from ..inline import inlined_program
    prog = inlined_program(prog, [mr.qualname, onr.qualname], keep=[f'{MOCKER}._cleanup_matches'])
    ci = prog.cls(MOCKER)
    mr, onr = ci.methods['_match_request'], ci.methods['_on_request']
    ck.functions |= {mr.qualname, onr.qualname}
    cfg = CFG(mr, prog)
    # ---- ROTATE: abstract execution of the list operations on the patch list ----------------------------------
    problems: List[Tuple[str, str, int, str]] = []
    sel_var, lst_var = _rotation_vars(mr)
    sims = 0
    for n_items in (1, 2, 3):
        for once in (False, True):
            outs = simulate_rotation(prog, mr, cfg, lst_var, sel_var, n_items, once)
            sims += len(outs)
            want_sel = 's0'
            want_lst = tuple(f's{k}' for k in range(1, n_items)) + (() if once else ('s0',))
            for line, lst, sel in outs:
                if sel != want_sel or lst != want_lst:
                    problems.append(('ROTATE', f'patch rotation wrong for {n_items} patch(es), once={once}', line,
                                     f'abstract execution of the list operations on `{lst_var}` starting from [{", ".join(f"s{k}" for k in range(n_items))}] with '
                                     f'head.once={once}: the call is answered by {sel} and the list becomes [{", ".join(lst)}]; required: answered by '
                                     f'{want_sel} (the oldest patch) and the list [{", ".join(want_lst)}] (the used patch re-appended at the tail iff it is not `once`)'))
    if sims < 6:
        raise AnalysisError(f'{mr.qualname}: patch rotation could not be followed')
    # de-duplicate (same defect shows for several list lengths)
    seen_c = set()
    problems = [p_ for p_ in problems if not (p_[1].split(' for ')[0] in seen_c or seen_c.add(p_[1].split(' for ')[0]))][:2] if problems else []
    pn = None
    for n in cfg.stmt_nodes():
        if any(isinstance(c.func, ast.Attribute) and c.func.attr == 'pop' and dotted(c.func.value) == lst_var for c in calls_in(n)):
            pn = n
            break
    if pn is None:
        raise AnalysisError(f'{mr.qualname}: no pop() on the patch list')
    cl = [(n, c) for n in cfg.stmt_nodes() for c in calls_in(n) if dotted(c.func) == 'self._cleanup_matches']
    if not cl or not all(n.id in cfg.reachable(pn) for n, _ in cl):
        problems.append(('ROTATE', 'emptied keys are not cleaned up after a once-patch is consumed', pn.line,
                         'after the last once-patch is used the (endpoint, method) key must be removed so that the next call misses'))
    # the cleanup itself: the endpoint entry is dropped only when the ENDPOINT has no patches left
    cu = ci.methods.get('_cleanup_matches')
    if cu is None:
        raise AnalysisError('PjRpcMocker._cleanup_matches not found')
    ck.functions.add(cu.qualname)
    ccfg = CFG(cu, prog)
    ep = cu.params[1].arg
    for n in ccfg.stmt_nodes():
        for c in calls_in(n):
            if isinstance(c.func, ast.Attribute) and c.func.attr == 'pop' and dotted(c.func.value) == 'self._matches' and c.args and dotted(c.args[0]) == ep:
                gs = guard_edges(ccfg, n)
                from ..util import canon_text
                ok_g = any(canon_text(cu, g.src.ast) == f'self._matches[{ep}]' and g.label == 'F' for g in gs)
                if not ok_g:
                    problems.append(('ROTATE', 'endpoint dropped although it still has patches for other methods', n.line,
                                     f'`{norm(c)}` removes the whole endpoint under {[norm(g.src.ast) + ":" + g.label for g in gs]}: it must be guarded '
                                     f'by the emptiness of self._matches[{ep}] (all methods of the endpoint), otherwise consuming the last `once` patch '
                                     f'of one method discards the patches of the endpoint\'s other methods'))
    # ---- RECORD-BEFORE-REPLY -----------------------------------------------------------------------
    stub_vars: Set[str] = set()
    from ..util import canon_text as _ct

    def in_calls_table(e: ast.expr) -> bool:
        """`self.calls[endpoint]` (or a local alias of it)"""
        return 'calls' in norm(e) or 'calls' in (_ct(mr, e) or '')
    for n in cfg.stmt_nodes():
        a_ = n.ast
        if not isinstance(a_, ast.Assign):
            continue
        v_ = a_.value
        # the recorder is what the table of recorded calls holds for (version, method): taken with setdefault, or read by subscript
        # (with the creation in the KeyError handler: `stub = table[key] = new`)
        if isinstance(v_, ast.Call) and isinstance(v_.func, ast.Attribute) and v_.func.attr == 'setdefault' and in_calls_table(v_.func.value):
            stub_vars |= assigned_names(n)
        elif isinstance(v_, ast.Subscript) and in_calls_table(v_.value) and all(isinstance(t, ast.Name) for t in a_.targets):
            stub_vars |= assigned_names(n)
        elif len(a_.targets) == 2 and any(isinstance(t, ast.Subscript) and in_calls_table(t.value) for t in a_.targets) and \
                any(isinstance(t, ast.Name) for t in a_.targets):
            stub_vars |= {t.id for t in a_.targets if isinstance(t, ast.Name)}
    if not stub_vars:
        # the table of recorded calls is filled, but what is called to record is not what the table holds (the result of
        # `calls[endpoint].setdefault(key, …)` is dropped): the recorder of a LATER patch for the same (endpoint, method) never gets there
        dropped = [n for n in cfg.stmt_nodes() if isinstance(n.ast, ast.Expr) and isinstance(n.ast.value, ast.Call) and
                   isinstance(n.ast.value.func, ast.Attribute) and n.ast.value.func.attr == 'setdefault' and 'calls' in norm(n.ast.value.func.value)]
        if dropped:
            ck.ob('RECORD-BEFORE-REPLY', '_match_request records the call on the recorder kept in the table of recorded calls', False)
            ck.finding('RECORD-BEFORE-REPLY', mr.qualname, 'the recorder that is called is not the one kept in `calls`', mr.module.rel, dropped[0].line,
                       f'`{norm(dropped[0].ast)[:90]}` drops what setdefault returns: the call is recorded on another object than the one `calls` holds '
                       f'for this (endpoint, method) — with two patches for one method (round-robin, replace, once + another) the calls answered by '
                       f'the later patch are missing from `mocker.calls`')
            return
        raise AnalysisError(f'{mr.qualname}: call-recording stub not found')
    rec_nodes = {n.id for n in cfg.stmt_nodes() for c in calls_in(n) if isinstance(c.func, ast.Name) and c.func.id in stub_vars}

    def step(state: int, e: Edge):
        return [min(2, state + 1)] if e.src.id in rec_nodes else [state]
    states = run_typestate(cfg, 0, step)
    pparam = mr.params[4].arg if len(mr.params) > 4 else 'params'
    for n in cfg.stmt_nodes():
        if isinstance(n.ast, ast.Return) and n.id in cfg.reachable(pn):
            for st in states[n.id]:
                if st != 1:
                    path = witness(cfg, n, st)
                    problems.append(('RECORD-BEFORE-REPLY', f'matched reply after {st} recordings', n.line,
                                     f'a matched call must be recorded exactly once before the reply is built; this return is reached '
                                     f'with {st} recordings; path: {cfg.describe_path(path)}'))
    # the callback is user code and may raise: the call must already be recorded when it is invoked
    for n in cfg.stmt_nodes():
        if any(isinstance(c.func, ast.Attribute) and c.func.attr == 'callback' for c in calls_in(n)) and n.id not in rec_nodes:
            for st in states.get(n.id, ()):
                if st != 1:
                    problems.append(('RECORD-BEFORE-REPLY', f'callback invoked after {st} recordings', n.line,
                                     f'`{norm(n.ast)[:80]}` runs the configured callback when the call has been recorded {st} times: a callback '
                                     f'that raises would leave the call unrecorded (every call is recorded, exactly once, before its reply is computed)'))
    # the recording stub and the callback receive the request's params spread by kind: *params for an array, **params for an
    # object, the value itself otherwise — decided on the values that can reach the call (flow.py), so a shared
    # `args, kwargs = ...` preparation is read the same way as three separate calls
    from ..flow import Flow
    fl_ = Flow(cfg)
    for n in cfg.stmt_nodes():
        for c in calls_in(n):
            is_stub = isinstance(c.func, ast.Name) and c.func.id in stub_vars
            is_cb = isinstance(c.func, ast.Attribute) and c.func.attr == 'callback'
            if not (is_stub or is_cb):
                continue
            bad = _spread_problem(prog, mr, cfg, fl_, n, c, pparam)
            if bad:
                problems.append(('RECORD-BEFORE-REPLY', ('recording' if is_stub else 'callback invocation') + ' does not carry the request params',
                                 n.line, f'`{norm(c)}`: {bad}'))
    # recording key = (endpoint)[(version, method)]
    # ---- FALLBACKS ---------------------------------------------------------------------------------
    idp = mr.params[5].arg if len(mr.params) > 5 else 'id'
    nf_ok = False
    for n in cfg.stmt_nodes():
        if isinstance(n.ast, ast.Return) and isinstance(n.ast.value, ast.Call) and 'MethodNotFoundError' in norm(n.ast.value):
            idv = kwarg(n.ast.value, 'id', 0)
            gs = guard_edges(cfg, n)
            miss = any(classify_cond(prog, mr, g.src.ast).kind == 'is-none' and (g.label == 'T') != classify_cond(prog, mr, g.src.ast).negated for g in gs)
            if idv is not None and dotted(idv) == idp and miss and n.id not in cfg.reachable(pn):
                nf_ok = True
    # the lookup of the patch list must not create an entry: the registry is a defaultdict(lambda: defaultdict(list)), so a
    # subscript on a miss leaves an empty list behind and the endpoint never becomes "unpatched" again
    init_m = ci.methods.get('__init__')
    vivifying = init_m is not None and any(isinstance(x, ast.Call) and (dotted(x.func) or '').endswith('defaultdict') for x in walk_own(init_m.node))
    for x in walk_own(mr.node):
        if isinstance(x, ast.Assign) and isinstance(x.targets[0], ast.Name) and x.targets[0].id == lst_var and \
                isinstance(x.value, ast.Subscript) and '_matches' in norm(x.value.value) and vivifying:
            nf_ok = nf_ok and False
            problems.append(('FALLBACKS', 'patch lookup creates an entry for an unpatched method', x.lineno,
                             f'`{norm(x)}` subscripts a defaultdict: a request for a method that is not patched inserts an empty patch list under '
                             f'that method, _cleanup_matches only removes the key of the method just served, so after the real patches are used up '
                             f'the endpoint still counts as patched and answers -32601 instead of being passed through / refused'))
    if not nf_ok and not any(p_[1].startswith('patch lookup creates') for p_ in problems):
        problems.append(('FALLBACKS', 'unpatched method is not answered with MethodNotFoundError carrying the request id', mr.node.lineno,
                         'a method without patches on a patched endpoint must get -32601 with the id of the request, before any patch is consumed'))
    for rule in ('ROTATE', 'RECORD-BEFORE-REPLY', 'FALLBACKS'):
        bad = [p for p in problems if p[0] == rule]
        ck.ob(rule, f'_match_request: {rule}', not bad)
    for rule, construct, line, msg in problems:
        ck.finding(rule, mr.qualname, construct, mr.module.rel, line, msg)
    # ---- REPLY-ID (SENT-TRUTH on the protocol scalar) ---------------------------------------------
    interp = Interp(prog, Config(user_raises=lambda f, c, s: set(), subscript_keyerror=False))
    flagged, n_conds = sent_truth(prog, interp, mr, recv=MOCKER, scalar_rule=True)
    idflag = [(s, why, k) for s, why, k in flagged if dotted(s.expr) == idp]
    ck.ob('REPLY-ID', 'the reply id is the request id; the configured id is used only when the request id is None (identity test)', not idflag,
          sample={'conditions': n_conds})
    for s, why, kinds in idflag:
        ck.finding('REPLY-ID', mr.qualname, f'truthiness of {norm(s.expr)} selects the reply id', mr.module.rel, s.node.line,
                   f'`{norm(s.node.ast)[:100]}`: {why}. A request with id 0 or "" is answered with the configured id (None by default) '
                   f'instead of its own id, so a strict client rejects the reply')
    reply_ids = []
    for n in cfg.stmt_nodes():
        if isinstance(n.ast, ast.Return) and isinstance(n.ast.value, ast.Call) and n.id in cfg.reachable(pn):
            idv = kwarg(n.ast.value, 'id', 0)
            reply_ids.append(norm(idv) if idv is not None else '<missing>')
            # every value the reply id can take: the request id, or (only when the request id is None) something else
            from ..flow import Flow as _FlowR
            flr = _FlowR(cfg)
            carries = False
            stray = []
            for al in (flr.alts(n, idv) if idv is not None else []):
                if dotted(al.expr) == idp:
                    carries = True
                    continue
                none_known = False
                for c_, pol_ in al.guards:
                    k_ = classify_cond(prog, mr, c_)
                    if k_.kind == 'is-none' and (not k_.negated) == pol_:
                        subj = k_.subject
                        if subj == idp:
                            none_known = True
                        elif subj and '.' not in subj:
                            cn = cfg.nodes_of(c_)
                            tested = c_.left if isinstance(c_, ast.Compare) else c_
                            leafs = {dotted(b_.expr) for b_ in flr.alts(cn[0], tested)} if cn else set()
                            if leafs == {idp}:
                                none_known = True
                if not none_known:
                    stray.append(al.text()[:70])
            if not carries or stray:
                ck.finding('REPLY-ID', mr.qualname, 'reply does not carry the request id', mr.module.rel, n.line,
                           f'`{norm(n.ast.value)[:90]}` must carry the id of the request'
                           f'{"; it can be " + "; ".join(stray) + " although the request has an id" if stray else ""}')
    ck.ob('REPLY-ID', 'every matched reply is built from the request id', not any(f_.rule == 'REPLY-ID' and 'does not carry' in f_.construct for f_ in ck.findings), sample={'reply_ids': reply_ids})
    _configured_values(ck, prog, ci)
    _calls_kept(ck, prog, ci)
    # ---- _on_request: endpoint fallbacks and element-wise batches -----------------------------------
    cfg2 = CFG(onr, prog)
    p2: List[Tuple[str, str, int, str]] = []
    miss_nodes = []
    from ..flow import Flow as _FlowM
    flm = _FlowM(cfg2)

    def is_table_lookup(e: ast.AST) -> bool:
        return isinstance(e, ast.Call) and isinstance(e.func, ast.Attribute) and e.func.attr == 'get' and \
            (dotted(e.func.value) or '').startswith('self.') and len(e.args) >= 1 and dotted(e.args[0]) == 'endpoint'
    miss_vars = set()
    from ..util import CondKind as _CK
    for c in cfg2.nodes:
        if c.kind != 'cond':
            continue
        e_, neg_ = c.ast, False
        while isinstance(e_, ast.UnaryOp) and isinstance(e_.op, ast.Not):
            e_, neg_ = e_.operand, not neg_
        tested = None
        if isinstance(e_, ast.Compare) and len(e_.ops) == 1 and isinstance(e_.ops[0], (ast.Is, ast.IsNot)):
            l_, r_ = e_.left, e_.comparators[0]
            if isinstance(r_, ast.Constant) and r_.value is None:
                tested = l_
            elif isinstance(l_, ast.Constant) and l_.value is None:
                tested = r_
            if isinstance(e_.ops[0], ast.IsNot):
                neg_ = not neg_
        if tested is None:
            # a local flag holding the test (`found = entry is not None; if not found:`) is looked through by classify_cond
            ckd = classify_cond(prog, onr, c.ast)
            if ckd.kind == 'is-none' and ckd.subject:
                try:
                    tested, neg_ = ast.parse(ckd.subject, mode='eval').body, ckd.negated
                except SyntaxError:
                    tested = None
        if tested is None:
            continue
        # the tested value is the endpoint's entry in the table of patches: `self._matches.get(endpoint)`, directly or through locals
        leaves = [al.expr for al in flm.alts(c, tested)] if isinstance(tested, ast.Name) else []
        if is_table_lookup(tested) or leaves and all(is_table_lookup(v) for v in leaves):
            miss_nodes.append((c, _CK('is-none', norm(tested), neg_)))
            if isinstance(tested, ast.Name):
                miss_vars.add(tested.id)
    if not miss_nodes:
        raise AnalysisError(f'{onr.qualname}: endpoint-miss test not recognised')
    if any(miss_vars & set(assigned_names(n)) and any(n.id in cfg2.reachable(c) for c, _ in miss_nodes) for n in cfg2.stmt_nodes()):
        raise AnalysisError(f'{onr.qualname}: the looked-up entry is reassigned after the endpoint-miss test')
    miss_label = {c.id: ('F' if k.negated else 'T') for c, k in miss_nodes}

    def consistent(miss: bool):
        # the same test on the unchanged variable has the same outcome wherever it is repeated
        def ok(e: Edge) -> bool:
            if e.label == 'exc':
                return False
            if e.src.id in miss_label and e.label in ('T', 'F'):
                return (e.label == miss_label[e.src.id]) == miss
            return True
        return ok
    miss_region: Set[int] = set()
    hit_region: Set[int] = set()
    for c, k in miss_nodes:
        for e in cfg2.succ[c.id]:
            if e.label not in ('T', 'F'):
                continue
            is_miss = e.label == miss_label[c.id]
            reg = {e.dst.id} | cfg2.reachable(e.dst, edge_ok=consistent(is_miss))
            if is_miss:
                miss_region |= reg
            else:
                hit_region |= reg
    pass_nodes = [n for n in cfg2.stmt_nodes() if isinstance(n.ast, ast.Return) and 'temp_original' in norm(n.ast)]
    refuse_nodes = [n for n in cfg2.stmt_nodes() if isinstance(n.ast, ast.Raise) and 'ConnectionRefusedError' in norm(n.ast)]
    match_nodes = [n for n in cfg2.stmt_nodes() if any(dotted(cc.func) == 'self._match_request' for cc in calls_in(n))]
    only_miss = miss_region - hit_region

    def pt_state(n: Node) -> Optional[bool]:
        for g in guard_edges(cfg2, n):
            k = classify_cond(prog, onr, g.src.ast)
            if k.kind == 'truthy' and k.subject and 'passthrough' in k.subject:
                return (g.label == 'T') != k.negated
        return None
    ok_f = bool(pass_nodes) and bool(refuse_nodes) and \
        all(n.id in only_miss and pt_state(n) is True for n in pass_nodes) and \
        all(n.id in only_miss for n in refuse_nodes) and \
        all(pt_state(n) is False or not any(n.id in cfg2.reachable(p_) for p_ in pass_nodes) for n in refuse_nodes) and \
        not any(n.id in miss_region for n in match_nodes) and \
        not any(n.id in hit_region for n in pass_nodes + refuse_nodes)
    # on the miss side every path ends in the passthrough return or the refusal
    if ok_f:
        stops = pass_nodes + refuse_nodes
        for c, k in miss_nodes:
            for e in cfg2.succ[c.id]:
                if e.label == miss_label[c.id]:
                    if e.dst not in stops and cfg2.exit.id in cfg2.reachable(e.dst, avoid_nodes=stops, edge_ok=consistent(True)):
                        ok_f = False
    if not ok_f:
        p2.append(('FALLBACKS', 'unpatched endpoint is not passed through / refused as configured', onr.node.lineno,
                   'an endpoint without patches must be passed to the original transport when passthrough is on and refused with '
                   'ConnectionRefusedError otherwise'))
    # the passthrough hands the original transport exactly what the replacement was called with, in the same positions (the original
    # is the client's own `_request(self, request_text, is_notification, **kwargs)`)
    own_pos = [a.arg for a in onr.node.args.args][1:]
    for n in pass_nodes:
        for c_ in calls_in(n):
            if isinstance(c_.func, ast.Attribute) and c_.func.attr == 'temp_original':
                given = [dotted(a) for a in c_.args]
                if given != own_pos[:len(given)] or len(given) < min(3, len(own_pos)) and not any(k.arg in own_pos for k in c_.keywords):
                    p2.append(('FALLBACKS', f'passthrough arguments {given}', n.line,
                               f'`{norm(c_)[:100]}` must hand the original transport the arguments of the intercepted call in their own positions '
                               f'({", ".join(own_pos[:3])}): with {given} the real transport is called with the wrong receiver / text and '
                               f'fails (AttributeError) instead of passing the request through'))
                kw_name = onr.node.args.kwarg.arg if onr.node.args.kwarg else None
                if kw_name and not any(k.arg is None and dotted(k.value) == kw_name for k in c_.keywords):
                    p2.append(('FALLBACKS', 'passthrough drops the keyword arguments', n.line,
                               f'`{norm(c_)[:100]}` does not forward **{kw_name}: per-request transport options are lost on the way to the real transport'))
    # batch loop — decided on the values: what is iterated is the deserialised batch, and what is appended is the matcher's answer
    # for the loop element (through locals)
    from ..flow import Flow as _FlowB
    flb = _FlowB(cfg2)
    heads = [n for n in cfg2.nodes if n.kind == 'next']
    ok_b = False
    if len(heads) == 1:
        h = heads[0]
        it_nodes = [m_ for m_ in cfg2.nodes if m_.kind == 'iter' and m_.ast is h.ast.iter]
        it_leaves = [al.expr for al in flb.alts(it_nodes[0] if it_nodes else h, h.ast.iter)]
        it_ok = bool(it_leaves) and all(isinstance(v, ast.Call) and norm(v.func).endswith('BatchRequest.from_json') for v in it_leaves)
        in_loop = [n for n in cfg2.stmt_nodes() if n.id in cfg2.reachable(h, edge_ok=lambda e: e.label != 'exhausted') and h.id in cfg2.reachable(n)]
        body_calls = [cc for n in in_loop for cc in calls_in(n) if dotted(cc.func) == 'self._match_request']
        apps = [(n, cc) for n in in_loop for cc in calls_in(n) if isinstance(cc.func, ast.Attribute) and cc.func.attr == 'append' and cc.args]
        tv = dotted(h.ast.target)
        app_ok = False
        if len(apps) == 1 and len(body_calls) == 1:
            an, ac = apps[0]
            leaves = [al.expr for al in flb.alts(an, ac.args[0])]
            app_ok = bool(leaves) and all(v is body_calls[0] for v in leaves)
        from ..util import bound_args as _ba
        ba_ = (_ba(mr, body_calls[0]) or {}) if body_calls else {}
        vals_ = list(ba_.values())
        ok_b = it_ok and app_ok and len(vals_) >= 5 and [norm(a) for a in vals_[2:5]] == [f'{tv}.method', f'{tv}.params', f'{tv}.id']
    if not ok_b:
        p2.append(('ELEMENTWISE', 'batch is not answered element by element, in order', onr.node.lineno,
                   'a batch must be answered by appending _match_request(endpoint, version, method, params, id) of every element, in order'))
    from ..flow import Flow as _Flow
    fl2 = _Flow(cfg2)
    single = [(n, cc) for n in cfg2.stmt_nodes() for cc in calls_in(n) if dotted(cc.func) == 'self._match_request' and
              not any(n.id in cfg2.reachable(h, edge_ok=lambda e: e.label != 'exhausted') and h.id in cfg2.reachable(n) for h in heads)]
    ok_s = False
    if len(single) == 1:
        sn, sc_ = single[0]
        from ..util import bound_args as _ba2
        a3 = [dotted(a) for a in list((_ba2(mr, sc_) or {}).values())[2:5]]
        if len(a3) == 3 and all(a3) and [x.rsplit('.', 1)[-1] for x in a3] == ['method', 'params', 'id'] and len({x.rsplit('.', 1)[0] for x in a3}) == 1:
            rv = a3[0].rsplit('.', 1)[0]
            srcs = fl2.alts(sn, ast.Name(id=rv, ctx=ast.Load()))
            ok_s = bool(srcs) and all(isinstance(al.expr, ast.Call) and norm(al.expr.func).endswith('Request.from_json')
                                      and not norm(al.expr.func).endswith('BatchRequest.from_json') for al in srcs)
    if not ok_s:
        p2.append(('ELEMENTWISE', 'single request is not matched with its own method, params and id', onr.node.lineno,
                   'a single request must be answered by _match_request(endpoint, version, method, params, id) of the request parsed from the text'))
    # every reply comes out of the matcher: whatever is serialised as the answer for a patched endpoint was produced by _match_request
    # (recorded, round-robin advanced, `once` consumed) — the single reply directly, the batch reply element by element
    reply_vars = {dotted(x.func.value) for x in ast.walk(onr.node) if isinstance(x, ast.Call) and isinstance(x.func, ast.Attribute)
                  and x.func.attr == 'to_json' and isinstance(x.func.value, ast.Name)}
    for n in cfg2.stmt_nodes():
        for rv_ in sorted(v for v in reply_vars if v in assigned_names(n)):
            kind_, val_ = fl2.def_value(n, rv_)
            if kind_ != 'expr' or val_ is None:
                if isinstance(n.ast, ast.AnnAssign) and n.ast.value is None:
                    continue
                p2.append(('ELEMENTWISE', f'reply `{rv_}` of unknown origin', n.line, f'`{norm(n.ast)[:80]}`'))
                continue
            for al in fl2.alts(n, val_):
                v = al.expr
                from_matcher = isinstance(v, ast.Call) and dotted(v.func) == 'self._match_request'
                empty_batch = isinstance(v, ast.Call) and norm(v.func).endswith('BatchResponse') and not v.args and not v.keywords
                if not (from_matcher or empty_batch):
                    p2.append(('ELEMENTWISE', f'reply not produced by the matcher: {norm(v)[:40]}', n.line,
                               f'`{norm(n.ast)[:90]}` answers a request on a patched endpoint with `{norm(v)[:60]}` without going through '
                               f'_match_request: the call is not recorded, a callback is not invoked, the round-robin does not advance, a `once` '
                               f'patch is not consumed and an unpatched method is not answered -32601'))
    # async transports: the patched transport is a coroutine function, so what it returns must be awaited by the replacement and every
    # reply of _on_request in async mode (mocked reply AND passthrough) must be an awaitable the replacement awaits
    st = ci.methods.get('start')
    if st is None:
        raise AnalysisError('PjRpcMocker.start not found')
    ck.functions.add(st.qualname)
    # async replacement functions: nested in start() or private coroutine methods of the class that start() hands to the patcher
    async_effects = [x for x in ast.walk(st.node) if isinstance(x, ast.AsyncFunctionDef)]      # (same-named twin definitions: by AST)
    names_in_start = {x.attr for x in ast.walk(st.node) if isinstance(x, ast.Attribute) and dotted(x.value) == 'self'}
    async_effects += [m.node for m in ci.methods.values() if m.is_async and m.name in names_in_start]
    relay = []
    for g in async_effects:
        for b_ in g.body:
            for x in ast.walk(b_):
                if isinstance(x, ast.Call) and dotted(x.func) == 'self._on_request':
                    relay.append((g, x))
    ok_a = bool(relay)
    for g, call in relay:
        awaited = any(isinstance(y, ast.Await) and y.value is call for b_ in g.body for y in ast.walk(b_))
        if not awaited:
            ok_a = False
    if not ok_a:
        p2.append(('FALLBACKS', 'async replacement does not await the reply', st.node.lineno,
                   'for an async transport the replacement coroutine must `return await self._on_request(...)`: otherwise the passthrough '
                   'to the real (async) transport hands the caller an un-awaited coroutine object instead of the reply text'))
    # _on_request in async mode: the mocked reply is wrapped into an awaitable (a nested coroutine or a coroutine method)
    ty2 = types_of(prog)
    sc2 = FuncScope(onr, ty2)

    def is_coro_call(v: ast.AST) -> bool:
        if not isinstance(v, ast.Call):
            return False
        if isinstance(v.func, ast.Name) and v.func.id in onr.nested and onr.nested[v.func.id].is_async:
            return True
        tg = ty2.callees(v, sc2)
        return bool(tg) and all(k == 'func' and getattr(o, 'is_async', False) for k, o in tg)
    wrapped = [n for n in cfg2.stmt_nodes() if n.kind == 'stmt' and isinstance(n.ast, ast.Return) and n.ast.value is not None and is_coro_call(n.ast.value)]

    def async_state(n: Node) -> Optional[bool]:
        for g in guard_edges(cfg2, n):
            k = classify_cond(prog, onr, g.src.ast)
            if k.subject == 'self._async_resp' and k.kind == 'truthy':
                return (g.label == 'T') != k.negated
        return None
    async_guarded = [n for n in wrapped if async_state(n) is True]
    plain = [n for n in cfg2.stmt_nodes() if n.kind == 'stmt' and isinstance(n.ast, ast.Return) and n.ast.value is not None and n not in wrapped
             and n not in pass_nodes]
    plain_in_async = [n for n in plain if async_state(n) is not False]
    if relay and (not async_guarded or plain_in_async):
        p2.append(('FALLBACKS', 'mocked reply is not awaitable in async mode', onr.node.lineno,
                   '_on_request must return an awaitable for every reply when the patched transport is async (the replacement awaits it), '
                   'and the plain text only when it is sync'))
    # the async mode is switched on exactly when the transport being patched is a coroutine function
    scfg = CFG(st, prog)
    flag_ok = False
    flag_why = 'start() never sets self._async_resp'
    for n in scfg.stmt_nodes():
        a = n.ast
        if isinstance(a, ast.Assign) and len(a.targets) == 1 and dotted(a.targets[0]) == 'self._async_resp':
            gs = guard_edges(scfg, n)
            under = any(isinstance(g.src.ast, ast.Call) and 'iscoroutinefunction' in (dotted(g.src.ast.func) or '') and g.label == 'T' for g in gs)
            if isinstance(a.value, ast.Constant) and a.value.value is True and under:
                flag_ok = True
            else:
                flag_why = f'`{norm(a)}` under {[norm(g.src.ast)[:40] + ":" + g.label for g in gs]}'
    if not flag_ok:
        p2.append(('FALLBACKS', 'async mode is not switched on for coroutine transports', st.node.lineno,
                   f'start() must set self._async_resp = True when the patched transport is a coroutine function ({flag_why}): otherwise the '
                   f'synchronous replacement is installed for an async client and a passthrough hands back an un-awaited coroutine'))
    for rule in ('FALLBACKS', 'ELEMENTWISE'):
        bad = [p for p in p2 if p[0] == rule]
        ck.ob(rule, f'_on_request: {rule}', not bad)
    for rule, construct, line, msg in p2:
        ck.finding(rule, onr.qualname, construct, onr.module.rel, line, msg)
    # add / replace / remove: round-robin storage
    add, rep = ci.methods.get('add'), ci.methods.get('replace')
    def _double_sub(e: ast.expr) -> bool:
        return isinstance(e, ast.Subscript) and isinstance(e.value, ast.Subscript) and dotted(e.value.value) is not None and \
            dotted(e.value.value).startswith('self.') and dotted(e.value.slice) == 'endpoint' and \
            isinstance(e.slice, ast.Tuple) and [dotted(t) for t in e.slice.elts] == ['version', 'method_name']
    ok_add = add is not None and any(isinstance(x, ast.Call) and isinstance(x.func, ast.Attribute) and x.func.attr == 'append' and
                                     _double_sub(x.func.value) for x in walk_own(add.node))
    ck.ob('ROTATE', 'add appends the patch at the tail of the (endpoint, (version, method)) list', ok_add)
    if not ok_add:
        ck.finding('ROTATE', ci.qualname + '.add', 'add does not append at the tail', ci.module.rel, add.node.lineno if add else 0,
                   'patches must be stored in order of addition under (endpoint, (version, method))')
    # remove(endpoint, method_name=None): without a method the whole endpoint goes, with one only that method's patches
    rem = ci.methods.get('remove')
    if rem is None:
        raise AnalysisError('PjRpcMocker.remove not found')
    ck.functions.add(rem.qualname)
    rcfg = CFG(rem, prog)
    mp = next((a.arg for a in rem.params if 'method' in a.arg), None)
    rem_bad = []
    n_pops = 0
    for n in rcfg.stmt_nodes():
        for c_ in calls_in(n):
            if not (isinstance(c_.func, ast.Attribute) and c_.func.attr in ('pop', '__delitem__') and c_.args):
                continue
            recv = c_.func.value
            whole = dotted(recv) is not None and dotted(recv).startswith('self.') and dotted(c_.args[0]) == 'endpoint'
            pair = isinstance(recv, ast.Subscript) and dotted(recv.slice) == 'endpoint' and mp is not None and \
                any(isinstance(y, ast.Name) and y.id == mp for y in ast.walk(c_.args[0]))
            if not (whole or pair):
                continue
            n_pops += 1
            state = None
            conds = [(g.src.ast, g.label == 'T') for g in guard_edges(rcfg, n)]
            # … and the arms of a conditional expression the call sits in (`a.pop(x) if m is None else b.pop(y)`)
            top_ = n.ast.test if n.kind == 'cond' and hasattr(n.ast, 'test') else n.ast

            def arm_conds(e: ast.AST, acc: list) -> Optional[list]:
                if e is c_:
                    return acc
                for ch in ast.iter_child_nodes(e):
                    extra = []
                    if isinstance(e, ast.IfExp) and ch is e.body:
                        extra = [(e.test, True)]
                    elif isinstance(e, ast.IfExp) and ch is e.orelse:
                        extra = [(e.test, False)]
                    r_ = arm_conds(ch, acc + extra)
                    if r_ is not None:
                        return r_
                return None
            conds += arm_conds(top_, []) or []
            for ce, pol_ in conds:
                while isinstance(ce, ast.UnaryOp) and isinstance(ce.op, ast.Not):
                    ce, pol_ = ce.operand, not pol_
                k = classify_cond(prog, rem, ce)
                if k.subject == mp and k.kind in ('is-none', 'truthy'):
                    is_none = (pol_ != k.negated) if k.kind == 'is-none' else (pol_ == k.negated)
                    state = is_none
            want = whole
            if state is not None and state != want or state is None:
                rem_bad.append((n.line, f'`{norm(c_)[:60]}` runs when {mp} is {"None" if state else "given" if state is not None else "anything"}'))
    ok_rem = not rem_bad
    ck.ob('ROTATE', 'remove: the whole endpoint is dropped only when no method is named, one method\'s patches otherwise', ok_rem, nontrivial=n_pops >= 2,
          sample={'pops': n_pops})
    for line, what in rem_bad:
        ck.finding('ROTATE', rem.qualname, what[:80], rem.module.rel, line,
                   f'{what}: remove(endpoint, method) must drop that method\'s patches only and remove(endpoint) the whole endpoint — the other way round '
                   f'removing one method un-patches every method of the endpoint (its calls are then refused / passed through instead of answered), '
                   f'and remove(endpoint) raises KeyError')
    if n_pops < 2:
        ck.not_decided.append('remove(): the two removal forms were not both recognised as pop() calls')
    ok_rep = rep is not None and any(isinstance(x, ast.Subscript) and isinstance(x.ctx, ast.Store) and dotted(x.slice) == 'idx' for x in walk_own(rep.node))
    ck.ob('ROTATE', 'replace overwrites the patch at the given index', ok_rep, nontrivial=False)
    if not ok_rep:
        ck.finding('ROTATE', ci.qualname + '.replace', 'replace does not overwrite index idx', ci.module.rel, rep.node.lineno if rep else 0, '')


def _calls_kept(ck: Check, prog: Program, ci: ClassInfo) -> None:
    """RECORD-BEFORE-REPLY (every call stays recorded): the table of recorded calls is created by the constructor, filled by the
    recording in _match_request and emptied only by the explicit reset operations — no other operation (removing or consuming a
    patch, cleaning up emptied keys) takes recorded calls away."""
    from ..effects import MUTATORS
    attr_names = {'_calls', 'calls'}
    allowed = {'__init__', '_match_request'}
    bad = []
    n_sites = 0
    for m in ci.methods.values():
        for x in walk_own(m.node):
            tgt = None
            kind = None
            if isinstance(x, ast.Call) and isinstance(x.func, ast.Attribute) and x.func.attr in MUTATORS:
                tgt, kind = x.func.value, f'.{x.func.attr}()'
            elif isinstance(x, (ast.Subscript, ast.Attribute)) and isinstance(x.ctx, (ast.Store, ast.Del)):
                tgt, kind = (x.value if isinstance(x, ast.Subscript) else x), 'store' if isinstance(x.ctx, ast.Store) else 'del'
            if tgt is None:
                continue
            root = tgt
            while isinstance(root, ast.Subscript):
                root = root.value
            d = dotted(root)
            if not (d and d.startswith('self.') and d.split('.')[1] in attr_names):
                continue
            n_sites += 1
            if m.name in allowed or 'reset' in m.name:
                continue
            bad.append((m, x, kind))
    ck.ob('RECORD-BEFORE-REPLY', f'{n_sites} writes to the table of recorded calls: only the constructor, the recording and the reset operations', not bad)
    ck.require('RECORD-BEFORE-REPLY', 'writes to the table of recorded calls', n_sites, 2)
    for m, x, kind in bad:
        ck.finding('RECORD-BEFORE-REPLY', m.qualname, f'recorded calls modified by {m.name}: {norm(x)[:40]}', m.module.rel, x.lineno,
                   f'`{norm(x)[:80]}` ({kind}) in {m.name} takes recorded calls away: every call must stay recorded under its endpoint and method '
                   f'whatever is added, replaced, removed or consumed afterwards (only reset() clears the records)')


def _configured_values(ck: Check, prog: Program, ci: ClassInfo) -> None:
    """REPLY-VALUE: the configured result / error travel from add() / replace() into the patch exactly as given: the parameters are
    not reassigned, not tested for truth (0, False, "", [] and {} are results like any other; only UNSET means "not configured") and
    are what the Match is built from."""
    from ..flow import Flow
    from ..util import is_unset_expr
    n_ops = 0
    for name in ('add', 'replace'):
        f = ci.methods.get(name)
        if f is None:
            raise AnalysisError(f'{ci.qualname}.{name} not found')
        n_ops += 1
        ck.functions.add(f.qualname)
        cfg = CFG(f, prog)
        fl = Flow(cfg)
        vals = [p.arg for p in f.params if f.param_default(p.arg) is not None and is_unset_expr(prog, f, f.param_default(p.arg))]
        problems: List[Tuple[int, str, str]] = []
        for n in cfg.stmt_nodes():
            for v in vals:
                if v in assigned_names(n):
                    problems.append((n.line, f'configured {v} replaced: {norm(n.ast)[:40]}', f'`{norm(n.ast)[:80]}` replaces the configured {v}'))
        for c in cfg.nodes:
            if c.kind == 'cond':
                ckd = classify_cond(prog, f, c.ast)
                if ckd.kind == 'truthy' and ckd.subject in vals:
                    problems.append((c.line, f'truthiness of the configured {ckd.subject}',
                                     f'`{norm(c.ast)}` tests the configured {ckd.subject} for truth: a configured falsy value (0, False, "", [], {{}}) '
                                     f'is treated like "not configured"; only `is UNSET` may decide that'))
        ctor = [(n, c) for n in cfg.stmt_nodes() for c in calls_in(n) if dotted(c.func) == 'Match']
        deleg = [(n, c) for n in cfg.stmt_nodes() for c in calls_in(n) if dotted(c.func) in ('self.add', 'self.replace') and dotted(c.func) != f'self.{name}']
        if len(ctor) != 1 and len(deleg) == 1:
            # the operation hands its arguments to the sibling operation, which builds the patch
            mn, mc = deleg[0]
            sib = ci.methods.get(dotted(mc.func).split('.')[1])
            pos_names = [p.arg for p in sib.params[1:]] if sib is not None else []
        elif len(ctor) == 1:
            mn, mc = ctor[0]
            pos_names = []
        else:
            ck.ob('REPLY-VALUE', f'{short(f.qualname)}: builds exactly one patch from its arguments', False)
            ck.finding('REPLY-VALUE', f.qualname, f'{len(ctor)} Match(...) constructions', f.module.rel, f.node.lineno,
                       f'{short(f.qualname)} must build exactly one patch (Match) from the configured values; found {len(ctor)} constructions')
            continue
        for v in vals:
            kv = kwarg(mc, v, pos_names.index(v) if v in pos_names else None)
            if kv is None:
                problems.append((mc.lineno, f'configured {v} not stored in the patch', f'`{norm(mc)[:80]}` does not receive {v}'))
                continue
            leafs = [al.expr for al in fl.alts(mn, kv)]
            if not all(dotted(x) == v for x in leafs):
                problems.append((mc.lineno, f'patch built from something else than the configured {v}',
                                 f'`{norm(mc)[:80]}` stores {[norm(x)[:30] for x in leafs]} as {v}'))
        ck.ob('REPLY-VALUE', f'{short(f.qualname)}: the configured {vals} reach the patch unchanged and are never tested for truth', not problems)
        for line, construct, msg in problems:
            ck.finding('REPLY-VALUE', f.qualname, construct, f.module.rel, line,
                       msg + ': the reply then does not carry the configured result / error')
    ck.require('REPLY-VALUE', 'patch-creating operations', n_ops, 2)


def _spread_problem(prog: Program, f: FuncInfo, cfg: CFG, fl, n: Node, c: ast.Call, pparam: str) -> Optional[str]:
    """None iff on every path the call receives exactly the request params: `*P` when P is an array, `**P` when P is an object,
    `P` itself otherwise."""
    def kind_of_guards(guards) -> Optional[str]:
        pos = named = None
        for cond, pol in guards:
            ckd = classify_cond(prog, f, cond)
            if ckd.kind == 'isinstance' and ckd.subject == pparam:
                names = set(ckd.detail.split(','))
                holds = pol != ckd.negated
                if names and names <= {'list', 'tuple'}:
                    pos = holds if pos is None else pos
                elif names == {'dict'}:
                    named = holds if named is None else named
        if pos:
            return 'array'
        if named:
            return 'object'
        if pos is False and named is False:
            return 'other'
        return None
    base = [(g.src.ast, g.label == 'T') for g in guard_edges(cfg, n)]
    stars = [a for a in c.args if isinstance(a, ast.Starred)]
    plain = [a for a in c.args if not isinstance(a, ast.Starred)]
    dstar = [k for k in c.keywords if k.arg is None]
    named_kw = [k for k in c.keywords if k.arg is not None]
    if named_kw or len(stars) > 1 or len(dstar) > 1:
        return 'unexpected argument structure'

    def a_form(e: ast.expr) -> Optional[str]:
        if dotted(e) == pparam:
            return '*P'
        if isinstance(e, (ast.Tuple, ast.List)) and not e.elts:
            return '()'
        if isinstance(e, (ast.Tuple, ast.List)) and len(e.elts) == 1 and dotted(e.elts[0]) == pparam:
            return '(P,)'
        return None

    def k_form(e: ast.expr) -> Optional[str]:
        if dotted(e) == pparam:
            return '**P'
        if isinstance(e, ast.Dict) and not e.keys:
            return '{}'
        return None
    a_alts = [(a_form(al.expr), al.guards, norm(al.expr)) for al in fl.alts(n, stars[0].value)] if stars else [('()', base, '()')]
    if plain:
        if stars or len(plain) != 1 or dotted(plain[0]) != pparam:
            return 'unexpected positional arguments'
        a_alts = [('(P,)', base, pparam)]
    k_alts = [(k_form(al.expr), al.guards, norm(al.expr)) for al in fl.alts(n, dstar[0].value)] if dstar else [('{}', base, '{}')]
    want = {'array': ('*P', '{}'), 'object': ('()', '**P'), 'other': ('(P,)', '{}')}
    seen_any = False
    for af, ag, atxt in a_alts:
        for kf, kg, ktxt in k_alts:
            gs = list(ag) + list(kg)
            pol: Dict[str, bool] = {}
            contradictory = False
            for cond, p_ in gs:
                if pol.setdefault(norm(cond), p_) != p_:
                    contradictory = True        # the two alternatives come from different branches
            if contradictory:
                continue
            seen_any = True
            if af is None or kf is None:
                return f'arguments `*{atxt}, **{ktxt}` are not the request params'
            kind = kind_of_guards(gs)
            if kind is None:
                return f'`*{atxt}, **{ktxt}` is passed without a test of the params kind (array / object / other)'
            if want[kind] != (af, kf):
                return f'for {kind} params the call receives `*{atxt}, **{ktxt}`'
    if not seen_any:
        return 'no consistent argument alternative'
    return None


def _rotation_vars(mr: FuncInfo) -> Tuple[str, str]:
    """(variable holding the selected patch, variable holding the patch list)."""
    sel = None
    for x in walk_own(mr.node):
        if isinstance(x, ast.Attribute) and x.attr in ('response_data', 'callback') and isinstance(x.value, ast.Name):
            sel = x.value.id
    lst = None
    for x in walk_own(mr.node):
        if isinstance(x, ast.Assign) and isinstance(x.targets[0], ast.Name) and isinstance(x.value, ast.Call) and \
                isinstance(x.value.func, ast.Attribute) and x.value.func.attr == 'get' and '_matches' in norm(x.value.func.value):
            lst = x.targets[0].id
        elif isinstance(x, ast.Assign) and isinstance(x.targets[0], ast.Name) and isinstance(x.value, ast.Subscript) and \
                '_matches' in norm(x.value.value) and lst is None:
            lst = x.targets[0].id       # a subscript lookup: FALLBACKS reports the auto-vivification
    if sel is None or lst is None:
        raise AnalysisError(f'{mr.qualname}: selected-patch / patch-list variables not recognised')
    return sel, lst


def simulate_rotation(prog: Program, mr: FuncInfo, cfg: CFG, lst_var: str, sel_var: str, n_items: int, once: bool):
    """Abstract execution of the statements that touch the patch list: returns [(line, final list, selected symbol)] for every
    path up to the point where the call is recorded.  Only the list operations are interpreted (pop / append / insert / index /
    del / remove on symbols); nothing of pjrpc is executed."""
    init = tuple(f's{k}' for k in range(n_items))
    results = []

    class Unknown(Exception):
        pass

    def ev(e: ast.expr, lst, env):
        """returns (value symbol or None, new list)"""
        if isinstance(e, ast.Name):
            return env.get(e.id), lst
        if isinstance(e, ast.Subscript) and dotted(e.value) == lst_var:
            if isinstance(e.slice, ast.Constant) and isinstance(e.slice.value, int):
                try:
                    return lst[e.slice.value], lst
                except IndexError:
                    raise Unknown('index out of range')
            if isinstance(e.slice, ast.UnaryOp) and isinstance(e.slice.op, ast.USub) and isinstance(e.slice.operand, ast.Constant):
                return lst[-e.slice.operand.value], lst
            raise Unknown(norm(e))
        if isinstance(e, ast.Call) and isinstance(e.func, ast.Attribute) and dotted(e.func.value) == lst_var:
            m = e.func.attr
            args = []
            for a in e.args:
                if isinstance(a, ast.Constant):
                    args.append(a.value)
                elif isinstance(a, ast.UnaryOp) and isinstance(a.op, ast.USub) and isinstance(a.operand, ast.Constant):
                    args.append(-a.operand.value)
                else:
                    v, lst = ev(a, lst, env)
                    args.append(v)
            l2 = list(lst)
            if m == 'pop':
                if not l2:
                    raise Unknown('pop from empty list')
                v = l2.pop(*[a for a in args[:1]])
                return v, tuple(l2)
            if m == 'append':
                l2.append(args[0])
                return None, tuple(l2)
            if m == 'insert':
                l2.insert(args[0], args[1])
                return None, tuple(l2)
            if m == 'remove':
                l2.remove(args[0])
                return None, tuple(l2)
            if m == 'extend' and e.args and isinstance(e.args[0], (ast.List, ast.Tuple)):
                for el in e.args[0].elts:
                    v, _ = ev(el, lst, env)
                    l2.append(v)
                return None, tuple(l2)
            if m in ('copy', 'index', 'count', '__len__'):
                return None, lst
            raise Unknown(norm(e))
        if any(isinstance(x, ast.Name) and x.id == lst_var for x in ast.walk(e)):
            if isinstance(e, ast.Call) and dotted(e.func) == 'len':
                return None, lst
            raise Unknown(norm(e))
        return None, lst

    stop_calls = ('self._cleanup_matches',)

    def walk(n, lst, env, depth, visited):
        if depth > 200 or (n.id, lst) in visited:
            return
        visited = visited | {(n.id, lst)}
        a = n.ast
        if n.kind == 'cond':
            ckd = classify_cond(prog, mr, a)
            nxt = None
            if ckd.subject == lst_var and ckd.kind == 'is-none':
                nxt = 'F' if not ckd.negated else 'T'
            elif ckd.subject == lst_var and ckd.kind == 'truthy':
                truth = bool(lst)
                nxt = 'T' if truth != ckd.negated else 'F'
            elif ckd.subject and ckd.subject.endswith('.once') and ckd.kind == 'truthy':
                sym = env.get(ckd.subject[:-5])
                val = once if sym == 's0' else False
                nxt = 'T' if val != ckd.negated else 'F'
            elif ckd.kind == 'len-cmp' and ckd.subject == lst_var:
                try:
                    val = bool(eval(ckd.detail.replace(f'len({lst_var})', str(len(lst))), {'__builtins__': {}}))
                    nxt = 'T' if val else 'F'
                except Exception:
                    nxt = None
            for e in cfg.succ[n.id]:
                if e.label in ('T', 'F') and (nxt is None or e.label == nxt):
                    walk(e.dst, lst, env, depth + 1, visited)
            return
        if n.kind == 'stmt' and a is not None:
            if any(dotted(c.func) in stop_calls for c in calls_in(n)) or isinstance(a, ast.Return):
                results.append((n.line, lst, env.get(sel_var)))
                return
            try:
                if isinstance(a, ast.Assign) and len(a.targets) == 1 and isinstance(a.targets[0], ast.Name) and a.targets[0].id != lst_var:
                    v, lst = ev(a.value, lst, env)
                    if v is not None or any(isinstance(x, ast.Name) and x.id == lst_var for x in ast.walk(a.value)):
                        env = dict(env)
                        env[a.targets[0].id] = v
                elif isinstance(a, ast.Assign) and isinstance(a.targets[0], ast.Name) and a.targets[0].id == lst_var:
                    pass     # the lookup of the list itself
                elif isinstance(a, ast.Expr):
                    _, lst = ev(a.value, lst, env)
                elif isinstance(a, ast.Delete):
                    for t in a.targets:
                        if isinstance(t, ast.Subscript) and dotted(t.value) == lst_var and isinstance(t.slice, ast.Constant):
                            l2 = list(lst)
                            del l2[t.slice.value]
                            lst = tuple(l2)
                elif isinstance(a, ast.AugAssign) and dotted(a.target) == lst_var and isinstance(a.value, (ast.List, ast.Tuple)):
                    l2 = list(lst)
                    for el in a.value.elts:
                        v, _ = ev(el, lst, env)
                        l2.append(v)
                    lst = tuple(l2)
                elif any(isinstance(x, ast.Name) and x.id == lst_var and isinstance(x.ctx, ast.Store) for x in ast.walk(a)):
                    raise Unknown(norm(a))
            except Unknown as u:
                raise AnalysisError(f'{mr.qualname}: list operation `{u}` on the patch list is not modelled')
        for e in cfg.succ[n.id]:
            if e.label != 'exc':
                walk(e.dst, lst, env, depth + 1, visited)

    walk(cfg.entry, init, {}, 0, frozenset())
    return results


MUTANTS = [
    dict(name='cleanup-forgets-recorded-calls', file='pjrpc/client/integrations/pytest.py',
         find='            self._matches.pop(endpoint)\n', replace='            self._matches.pop(endpoint)\n            self._calls.pop(endpoint, None)\n',
         expect='RECORD-BEFORE-REPLY'),
    dict(name='falsy-result-defaulted', file='pjrpc/client/integrations/pytest.py', nth=0,
         find='        match = Match(endpoint, version, method_name, once, id=id, result=result, error=error, callback=callback)\n',
         replace='        if not (result or error or callback):\n            result = None\n'
                 '        match = Match(endpoint, version, method_name, once, id=id, result=result, error=error, callback=callback)\n',
         expect='REPLY-VALUE'),
    dict(name='notification-answered-without-the-matcher', file='pjrpc/client/integrations/pytest.py',
         find='        else:\n            request = pjrpc.Request.from_json(json_data)\n',
         replace='        elif is_notification:\n            response = pjrpc.Response(id=None, result=None)\n'
                 '        else:\n            request = pjrpc.Request.from_json(json_data)\n', expect='ELEMENTWISE'),
    dict(name='pop-tail', file='pjrpc/client/integrations/pytest.py', find='match = matches.pop(0)', replace='match = matches.pop()', expect='ROTATE'),
    dict(name='record-after-callback-only', file='pjrpc/client/integrations/pytest.py',
         find='''        if isinstance(params, (list, tuple)):
            stub(*params)
        elif isinstance(params, dict):
            stub(**params)
        else:
            stub(params)

        if match.callback:''',
         replace='''        if not match.callback:
            return pjrpc.Response(id=id if id is not None else match.response_data['id'], result=match.response_data['result'], error=match.response_data['error'])
        if isinstance(params, (list, tuple)):
            stub(*params)
        elif isinstance(params, dict):
            stub(**params)
        else:
            stub(params)

        if match.callback:''', expect='RECORD-BEFORE-REPLY'),
    dict(name='callback-named-params-as-one-positional', file='pjrpc/client/integrations/pytest.py',
         find='result = match.callback(**params)', replace='result = match.callback(params)', expect='RECORD-BEFORE-REPLY'),
    dict(name='recording-splats-without-kind-test', file='pjrpc/client/integrations/pytest.py',
         find="""        if isinstance(params, (list, tuple)):
            stub(*params)
        elif isinstance(params, dict):
            stub(**params)
        else:
            stub(params)
""", replace="""        if isinstance(params, (list, tuple, str)):
            stub(*params)
        elif isinstance(params, dict):
            stub(**params)
        else:
            stub(params)
""", expect='RECORD-BEFORE-REPLY'),
    dict(name='drop-cleanup', file='pjrpc/client/integrations/pytest.py', nth=1,
         find='        self._cleanup_matches(endpoint, version, method_name)\n', replace='', expect='ROTATE'),
    dict(name='once-inverted', file='pjrpc/client/integrations/pytest.py', find='        if not match.once:\n            matches.append(match)',
         replace='        if match.once:\n            matches.append(match)', expect='ROTATE'),
    dict(name='not-found-without-id', file='pjrpc/client/integrations/pytest.py',
         find='return pjrpc.Response(id=id, error=pjrpc.exc.MethodNotFoundError(data=method_name))',
         replace='return pjrpc.Response(id=None, error=pjrpc.exc.MethodNotFoundError(data=method_name))', expect='FALLBACKS'),
    dict(name='batch-reversed', file='pjrpc/client/integrations/pytest.py', find='for request in pjrpc.BatchRequest.from_json(json_data):',
         replace='for request in reversed(list(pjrpc.BatchRequest.from_json(json_data))):', expect='ELEMENTWISE'),
    dict(name='always-refuse', file='pjrpc/client/integrations/pytest.py',
         find='            if self._passthrough:\n                return self._patcher.temp_original(origin_self, request_text, is_notification, **kwargs)\n            else:\n                raise ConnectionRefusedError()',
         replace='            raise ConnectionRefusedError()', expect='FALLBACKS'),
    dict(name='reintroduce-D20-id-truthiness', file='pjrpc/client/integrations/pytest.py',
         find="id=id if id is not None else match.response_data['id'],", replace="id=id or match.response_data['id'],", expect='REPLY-ID'),
    dict(name='reply-with-configured-id-first', file='pjrpc/client/integrations/pytest.py',
         find="id=id if id is not None else match.response_data['id'],", replace="id=match.response_data['id'],", expect='REPLY-ID'),
    dict(name='lookup-auto-vivifies', file='pjrpc/client/integrations/pytest.py', find='matches = self._matches[endpoint].get((version, method_name))\n        if matches is None:',
         replace='matches = self._matches[endpoint][(version, method_name)]\n        if not matches:', expect='FALLBACKS'),
]
