"""C06 — deserialisation is strict and total: only DeserializationError (IdentityError for batches) escapes."""
from __future__ import annotations

import ast
from typing import Dict, List, Optional, Set, Tuple

from ..absint import EMPTY_ENV, K_T, K_VAL, Interp, _is_abstract, env_set
from ..cfg import CFG, Edge, Node
from ..model import AnalysisError, ClassInfo, FuncInfo, Program, dotted, norm
from ..report import Check
from ..types import walk_own
from ..util import (assigned_names, calls_in, classify_cond, guard_edges, key_reads, node_exprs, short, walk_no_defs)
from .common import EXC, V20
from .sentinel import sent_truth

DESER = EXC + '.DeserializationError'
IDENTITY = EXC + '.IdentityError'

# member typing admitted by JSON-RPC 2.0 as pjrpc implements it (ids: integers, strings, null)
FIELD_SPEC = {
    'Request': {'id': ({'int', 'str'}, True), 'method': ({'str'}, False), 'params': ({'list', 'dict', 'tuple'}, False)},
    'Response': {'id': ({'int', 'str'}, True)},
    'JsonRpcError': {'code': ({'int'}, False), 'message': ({'str'}, False)},
}


def from_json_funcs(prog: Program) -> List[FuncInfo]:
    out = []
    for q in (V20, EXC):
        for ci in prog.classes.values():
            if ci.module.name == q and 'from_json' in ci.methods and not _is_abstract(ci.methods['from_json']):
                out.append(ci.methods['from_json'])
    return out


def model_program(prog: Program) -> Program:
    """The program with private same-module helpers of the message model's (de)serialisers inlined into them, so that a
    shared prologue moved into a helper (`_parse_envelope(json_data, cls)`) is still seen as part of from_json."""
    from ..inline import inlined_program
    callers = []
    for q in (V20, EXC):
        for ci in prog.classes.values():
            if ci.module.name == q:
                for name in ('from_json', 'to_json'):
                    m = ci.methods.get(name)
                    if m is not None and not _is_abstract(m):
                        callers.append(m.qualname)
    return inlined_program(prog, callers)


def json_param(f: FuncInfo) -> str:
    ps = f.params
    if len(ps) < 2:
        raise AnalysisError(f'{f.qualname}: no JSON data parameter')
    return ps[1].arg


def analyze_from_json(prog: Program, interp: Interp, f: FuncInfo):
    env = EMPTY_ENV
    env = env_set(env, json_param(f), K_VAL)
    for p in f.params[2:]:
        env = env_set(env, p.arg, K_T)
    return interp.analyze(f, {env}, recv=f.cls.qualname if f.cls else None)


def raise_edges(cfg: CFG) -> List[Tuple[Node, Edge]]:
    """(cond node, edge) pairs whose edge leads straight to a `raise`."""
    out = []
    for c in cfg.nodes:
        if c.kind != 'cond':
            continue
        for e in cfg.succ[c.id]:
            if e.label in ('T', 'F') and isinstance(e.dst.ast, ast.Raise):
                out.append((c, e))
    return out


def run(ck: Check, prog: Program) -> None:
    ck.explain('Exception-escape analysis of the five from_json entry points with the JSON argument unconstrained '
               '(any JSON value): the only classes that may leave are DeserializationError and, for batches, '
               'IdentityError; constructor assertions reached from from_json must be discharged from the dominating '
               'guards (relational sentinel-kind abstract interpretation). Structural member-by-member guard rules '
               '(type table, bool is not an integer, identity tests for result/error), and strong exception safety of '
               'batch append/extend.')
    ck.assume('the argument of from_json is a decoded JSON value (dict / list / str / int / float / bool / None)')
    ck.not_decided.append('nothing value-dependent beyond the admitted-type table: the path analysis covers the member alphabet product')
    prog = model_program(prog)
    interp = Interp(prog)
    funcs = from_json_funcs(prog)
    ck.require('ESC-FROMJSON', 'from_json entry points', len(funcs), 5)

    order = {'JsonRpcError': 0, 'Request': 1, 'Response': 2, 'BatchRequest': 3, 'BatchResponse': 4}
    funcs.sort(key=lambda f: order.get(f.cls.name if f.cls else '', 9))
    reported: Set[Tuple[str, str]] = set()
    for f in funcs:
        ck.functions.add(f.qualname)
        cname = f.cls.name if f.cls else '?'
        res = analyze_from_json(prog, interp, f)
        allowed = {DESER} | ({IDENTITY} if 'Batch' in cname else set())
        sites = 0
        for nid, rs in res.node_raises.items():
            for (c, o), w in rs.items():
                sites += 1
                escapes = any(c2 == c and o2 == o for (c2, o2) in res.raises)
                bad = escapes and not any(prog.exc_subclass(c, a) for a in allowed)
                ck.ob('ESC-FROMJSON', f'{short(f.qualname)}: {c} raised at line {w.line}', not bad,
                      sample={'site': f'{w.rel}:{w.line} {w.text[:70]}', 'class': c,
                              'fate': 'escapes as permitted class' if escapes and not bad else ('ESCAPES' if bad else 'translated / caught')})
        ck.require('ESC-FROMJSON', f'raising sites in {short(f.qualname)}', sites, 2)
        for (c, o), w in res.raises.items():
            if any(prog.exc_subclass(c, a) for a in allowed):
                continue
            inner = w.innermost()
            if (c, o) in reported:      # already attributed to the innermost deserialiser that reaches it
                continue
            reported.add((c, o))
            ck.finding('ESC-FROMJSON', f.qualname, f'{c} <- {short(inner.func)}|{inner.okey}', inner.rel, inner.line,
                       f'{c} escapes {short(f.qualname)} for some JSON value: only DeserializationError'
                       f'{"/IdentityError" if IDENTITY in allowed else ""} may be raised. Falsifying assignment: {inner.env}',
                       w.chain())
        _field_guards(ck, prog, f)
        _container_guard(ck, prog, f)
        _hash_uses(ck, prog, f)

    # XOR / SENT-TRUTH on the message model deserialisers and constructors
    model = list(funcs)
    for q in (V20 + '.Response.__init__', EXC + '.JsonRpcError.__init__'):
        model.append(prog.func(q))
    n_sites = 0
    for f in model:
        init = None
        if f.name == 'from_json':
            env = env_set(EMPTY_ENV, json_param(f), K_VAL)
            init = {env}
        flagged, n = sent_truth(prog, interp, f, init=init, scalar_rule=True)
        n_sites += n
        flagged_ids = {id(s.expr) for s, _, _ in flagged}
        for s, why, kinds in flagged:
            ck.finding('SENT-TRUTH', f.qualname, f'truthiness of {norm(s.expr)} in {s.context}', f.module.rel, s.node.line,
                       f'`{norm(s.expr)}` is used as a truth value ({s.context}); {why}. Kinds it can take here: '
                       f'{sorted(kinds)}', [f'{f.module.rel}:{s.node.line} {norm(s.node.ast)[:110]}'])
        ck.ob('SENT-TRUTH', f'{short(f.qualname)}: {n} conditions, no truthiness test on a sentinel-typed or protocol-scalar value',
              not flagged, sample={'sites': n, 'flagged': [norm(s.expr) for s, _, _ in flagged]})
    ck.require('SENT-TRUTH', 'conditions examined in the message model', n_sites, 20)

    _presence_by_identity(ck, prog)
    version_exact(ck, prog)
    _atomic_append(ck, prog, interp)
    _empty_batch_request(ck, prog)
    ck.extra['contexts_analysed'] = interp.contexts
    ck.extra['call_sites_resolved'] = interp.calls_resolved
    ck.extra['assumed_total_callees'] = {k: len(v) for k, v in sorted(interp.assumed_total.items())}
    if interp.depth_cutoffs:
        raise AnalysisError(f'call depth bound hit at {sorted(interp.depth_cutoffs)}')



def version_exact(ck: Check, prog: Program, quals=None) -> None:
    """VERSION-EXACT: the `jsonrpc` member is compared with the version constant AS READ from the document.  Converted to text first
    (`str(...)`, an f-string, `format`) the JSON number 2.0 becomes '2.0' and a document of the wrong type is accepted as version 2.0."""
    from ..flow import Flow
    quals = quals or (V20 + '.Request.from_json', V20 + '.Response.from_json', V20 + '.BatchResponse.from_json')
    n_cmp = 0
    for q in quals:
        f = prog.funcs.get(q)
        if f is None:
            continue
        ck.functions.add(q)
        cfg = CFG(f, prog)
        fl = Flow(cfg)
        jp = json_param(f)
        for c in cfg.nodes:
            if c.kind != 'cond' or not isinstance(c.ast, ast.Compare) or len(c.ast.ops) != 1:
                continue
            sides = [c.ast.left, c.ast.comparators[0]]
            if not any((dotted(x) or '').endswith('.version') for x in sides):
                continue
            other = [x for x in sides if not (dotted(x) or '').endswith('.version')]
            if not other:
                continue
            n_cmp += 1
            for al in fl.alts(c, other[0]):
                v = al.expr
                raw = isinstance(v, ast.Subscript) and dotted(v.value) == jp or \
                    isinstance(v, ast.Call) and isinstance(v.func, ast.Attribute) and v.func.attr == 'get' and dotted(v.func.value) == jp
                conv = isinstance(v, ast.JoinedStr) or isinstance(v, ast.Call) and dotted(v.func) in ('str', 'repr', 'format', 'ascii') or \
                    isinstance(v, ast.Call) and isinstance(v.func, ast.Attribute) and v.func.attr in ('format', 'strip', 'lower', 'upper')
                if conv and not raw:
                    ck.finding('VERSION-EXACT', q, f'version compared after conversion: {norm(v)[:40]}', f.module.rel, c.line,
                               f'`{norm(c.ast)}` compares `{norm(v)[:60]}` — the member converted to text — with the protocol version: the JSON number '
                               f'2.0 (and anything else whose text is "2.0") passes, so a document with a wrongly typed `jsonrpc` member is accepted '
                               f'instead of being refused as an invalid request / response')
    ck.ob('VERSION-EXACT', f'{n_cmp} comparisons with the protocol version use the member as read from the document',
          not any(f_.rule == 'VERSION-EXACT' for f_ in ck.findings), nontrivial=n_cmp > 0)


def _presence_by_identity(ck: Check, prog: Program) -> None:
    """XOR: presence of result / error (and error data) is decided by identity against UNSET with UNSET as the reader default, so that
    a member that is present but null is not mistaken for an absent one."""
    from ..util import is_unset_expr
    for q, keys in ((V20 + '.Response.from_json', ('result', 'error')), (EXC + '.JsonRpcError.from_json', ('data',))):
        f = prog.func(q)
        cfg = CFG(f, prog)
        jp = json_param(f)
        reads = [r for r in key_reads(cfg) if r.var == jp]
        for k in keys:
            rs = [r for r in reads if r.key == k]
            ok = bool(rs) and all(r.how == 'get' and r.default is not None and is_unset_expr(prog, f, r.default) for r in rs
                                  if not isinstance(r.node.ast, ast.Raise))
            ck.ob('XOR', f'{short(q)}: member {k!r} is read with UNSET as the absent marker', ok)
            if not ok:
                bad = [r for r in rs if not (r.how == 'get' and r.default is not None and is_unset_expr(prog, f, r.default))]
                ck.finding('XOR', q, f'member {k!r} absent marker is not UNSET', f.module.rel, bad[0].node.line if bad else f.node.lineno,
                           f'member {k!r} is read as `{norm(bad[0].expr) if bad else "?"}`: a member that is present with the value null becomes '
                           f'indistinguishable from an absent one, so e.g. a response carrying a result together with "error": null is accepted')
        members = _member_vars(cfg, f)
        for k in keys:
            if k not in members:
                continue
            var = members[k][0]
            for c in cfg.nodes:
                if c.kind == 'cond':
                    ckd = classify_cond(prog, f, c.ast)
                    if ckd.subject == var and ckd.kind in ('is-none', 'truthy'):
                        ck.finding('XOR', q, f'presence of {k!r} tested by {ckd.kind}', f.module.rel, c.line,
                                   f'`{norm(c.ast)}` decides the presence of member {k!r} by a None/truthiness test; presence must be an identity '
                                   f'test against UNSET')


def _member_vars(cfg: CFG, f: FuncInfo) -> Dict[str, Tuple[str, Node]]:
    """member key -> (local variable holding it, defining node)."""
    jp = json_param(f)
    out: Dict[str, Tuple[str, Node]] = {}
    for r in key_reads(cfg):
        if r.var != jp:
            continue
        a = r.node.ast
        if isinstance(a, ast.Assign) and len(a.targets) == 1:
            tg = a.targets[0]
            if isinstance(tg, ast.Name) and a.value is r.expr:
                out.setdefault(r.key, (tg.id, r.node))
            elif isinstance(tg, ast.Name) and isinstance(a.value, (ast.BoolOp, ast.IfExp)) and any(x is r.expr for x in ast.walk(a.value)):
                out.setdefault(r.key, (tg.id, r.node))
                r.node.extra['member_rewritten'] = norm(a.value)
            elif isinstance(tg, ast.Tuple) and isinstance(a.value, ast.Tuple):
                for t_, v_ in zip(tg.elts, a.value.elts):
                    if v_ is r.expr and isinstance(t_, ast.Name):
                        out.setdefault(r.key, (t_.id, r.node))
    return out


def _field_guards(ck: Check, prog: Program, f: FuncInfo) -> None:
    cname = f.cls.name if f.cls else ''
    spec = FIELD_SPEC.get(cname)
    cfg = CFG(f, prog)
    jp = json_param(f)
    # version check (all classes that read 'jsonrpc')
    members = _member_vars(cfg, f)
    redges = raise_edges(cfg)
    reads = [r for r in key_reads(cfg) if r.var == jp]
    if any(r.key == 'jsonrpc' for r in reads):
        ok = False
        for c, e in redges:
            ckd = classify_cond(prog, f, c.ast)
            if ckd.kind == 'eq' and ckd.detail in ('cls.version', 'self.version') and \
                    (ckd.subject == members.get('jsonrpc', ('', None))[0] or ckd.subject is None or 'jsonrpc' in norm(c.ast)):
                # raise on "not equal"
                if (e.label == 'T') == ckd.negated:
                    ok = True
        ck.ob('FIELD-GUARD', f'{short(f.qualname)}: protocol version compared with the class constant, mismatch rejected', ok)
        if not ok:
            ck.finding('FIELD-GUARD', f.qualname, "member 'jsonrpc' unchecked", f.module.rel, f.node.lineno,
                       'the jsonrpc member is read but a wrong protocol version is not rejected with DeserializationError')
    if spec is None:
        return
    # where the message object is built
    ctor_nodes = [n for n in cfg.stmt_nodes() if isinstance(n.ast, ast.Return) and n.ast.value is not None
                  and isinstance(n.ast.value, ast.Call)]
    for key, (admitted, nullable) in spec.items():
        if key not in members:
            raise AnalysisError(f'{f.qualname}: member {key!r} is not read into a local variable (unknown idiom)')
        var, defnode = members[key]
        if defnode.extra.get('member_rewritten'):
            ck.finding('FIELD-GUARD', f.qualname, f'member {key!r} replaced before its type check', f.module.rel, defnode.line,
                       f'`{norm(defnode.ast)}`: the member is replaced by a default whenever it is falsy, so a present-but-invalid value '
                       f'(null, 0, "", false) bypasses the type check that follows and a structurally invalid message is accepted')
        # Per-JSON-type reachability: for each JSON type the member can have, the branches of every test on the member
        # (isinstance / is None, in any nesting, order or De-Morgan form) are resolved for that type and the constructor
        # must be unreachable for the types the specification does not admit.
        TAGS = ('null', 'bool', 'int', 'float', 'str', 'list', 'dict')
        INST = {'bool': {'bool'}, 'int': {'bool', 'int'}, 'float': {'float'}, 'str': {'str'}, 'list': {'list'}, 'dict': {'dict'},
                'tuple': set(), 'object': set(TAGS), 'NoneType': {'null'}}
        conds = []
        for c in cfg.nodes:
            if c.kind != 'cond':
                continue
            ckd = classify_cond(prog, f, c.ast)
            if ckd.subject != var:
                continue
            if ckd.kind == 'isinstance':
                names = set(ckd.detail.split(','))
                if not names <= set(INST):
                    continue            # a class the JSON decoder never produces / unknown: both branches stay possible
                conds.append((c, set().union(*[INST[n] for n in names]), ckd.negated))
            elif ckd.kind == 'is-none':
                conds.append((c, {'null'}, ckd.negated))

        def wrong_edges(tag: str):
            out = []
            for c, true_for, negated in conds:
                holds = (tag in true_for) != negated
                out += [e for e in cfg.succ[c.id] if e.label in ('T', 'F') and (e.label == 'T') != holds]
            return out
        reach_by_tag = {t: cfg.reachable(cfg.entry, avoid_edges=wrong_edges(t)) for t in TAGS}
        through = {t for t in TAGS if any(n.id in reach_by_tag[t] for n in ctor_nodes)}
        allowed = set(admitted & set(TAGS)) | ({'null'} if nullable else set())
        guard_nodes = [c for c, _, _ in conds]
        first_line = guard_nodes[0].line if guard_nodes else defnode.line
        ok = bool(conds) and through != set(TAGS) and bool(ctor_nodes)
        ck.ob('FIELD-GUARD', f'{short(f.qualname)}: member {key!r} type-checked before the message is built', ok,
              sample={'member': key, 'json_types_reaching_the_constructor': sorted(through), 'spec': sorted(allowed)})
        if not ok:
            ck.finding('FIELD-GUARD', f.qualname, f'member {key!r} unchecked', f.module.rel, defnode.line,
                       f'member {key!r} reaches the constructor without a type check that raises DeserializationError: '
                       f'structurally invalid messages would be accepted')
            continue
        # every other use of the member (registry lookups, constructor arguments, …) happens only for admitted types
        early = []
        for n in cfg.stmt_nodes():
            if n in guard_nodes or n is defnode or isinstance(n.ast, ast.Raise) or n.kind == 'cond' and classify_cond(prog, f, n.ast).subject == var:
                continue
            if var in {x.id for frag in node_exprs(n) for x in walk_no_defs(frag) if isinstance(x, ast.Name) and isinstance(x.ctx, ast.Load)}:
                bad_tags = sorted(t for t in TAGS if t not in allowed and n.id in reach_by_tag[t])
                if bad_tags:
                    early.append((n, bad_tags))
        ck.ob('FIELD-GUARD', f'{short(f.qualname)}: member {key!r} is not used before its type check', not early)
        extra = through - allowed
        for n, bad_tags in early:
            if any(n is c for c in ctor_nodes) and extra:
                continue        # reported below as an admitted type
            ck.finding('FIELD-GUARD', f.qualname, f'member {key!r} used before its type check', f.module.rel, n.line,
                       f'`{norm(n.ast)[:80]}` uses member {key!r} when it is a JSON {"/".join(bad_tags)}, i.e. before the check that rejects '
                       f'wrong JSON types: an unexpected type (e.g. an unhashable list/object where a scalar is expected) raises '
                       f'TypeError instead of DeserializationError')
        extra_nb = extra - {'bool'} if 'int' in allowed else extra
        ck.ob('FIELD-GUARD', f'{short(f.qualname)}: member {key!r} admits only {sorted(allowed)}', not extra_nb)
        if extra_nb:
            ck.finding('FIELD-GUARD', f.qualname, f'member {key!r} admits {sorted(extra_nb)}', f.module.rel, first_line,
                       f'member {key!r} admits JSON types {sorted(extra_nb)} beyond {sorted(allowed)}')
        if 'int' in allowed:
            bool_excluded = 'bool' not in through
            ck.ob('JSON-BOOL', f'{short(f.qualname)}: integer guard on member {key!r} excludes bool', bool_excluded,
                  sample={'guard': norm(guard_nodes[0].ast)})
            if not bool_excluded:
                ck.finding('JSON-BOOL', f.qualname, f'member {key!r}: isinstance int admits bool', f.module.rel, first_line,
                           f'a JSON true/false reaches the constructor as member {key!r}: bool is a subclass of int '
                           f'in Python, but a JSON boolean is not a number (ids/codes must be integers)')
        missing = allowed - through
        ck.ob('FIELD-GUARD', f'{short(f.qualname)}: every admitted JSON type of member {key!r} is accepted', not missing)
        if missing:
            ck.finding('FIELD-GUARD', f.qualname, f'member {key!r} rejects {sorted(missing)}', f.module.rel, first_line,
                       f'member {key!r} of JSON type {sorted(missing)} is admitted by the protocol but never reaches the constructor: '
                       f'well-formed messages are rejected')


def _container_guard(ck: Check, prog: Program, f: FuncInfo) -> None:
    """The JSON argument is used as a mapping only under isinstance(dict), as a sequence only under
    isinstance(list/tuple)."""
    cfg = CFG(f, prog)
    jp = json_param(f)
    uses: List[Tuple[Node, str, str]] = []
    for n in cfg.stmt_nodes():
        for frag in node_exprs(n):
            for x in walk_no_defs(frag):
                if isinstance(x, ast.Subscript) and dotted(x.value) == jp:
                    uses.append((n, 'dict', norm(x)))
                elif isinstance(x, ast.Call) and isinstance(x.func, ast.Attribute) and dotted(x.func.value) == jp:
                    uses.append((n, 'dict', norm(x)))
                elif isinstance(x, ast.Call) and dotted(x.func) == 'len' and x.args and dotted(x.args[0]) == jp:
                    uses.append((n, 'seq', norm(x)))
                elif isinstance(x, ast.comprehension) and dotted(x.iter) == jp:
                    uses.append((n, 'seq', 'iteration over ' + jp))
        if n.kind == 'iter' and dotted(n.ast) == jp:
            uses.append((n, 'seq', 'iteration over ' + jp))
    # the container checks speak about the value that was received: the parameter must not be rebound to something else
    # (wrapping a bare object into a list, defaulting a falsy value, ...) before or between them
    for n in cfg.stmt_nodes():
        if jp in assigned_names(n):
            ck.ob('CONTAINER-GUARD', f'{short(f.qualname)}: the JSON argument is not rebound', False)
            ck.finding('CONTAINER-GUARD', f.qualname, f'JSON argument rebound: {norm(n.ast)[:50]}', f.module.rel, n.line,
                       f'`{norm(n.ast)[:80]}` replaces the received JSON value inside {short(f.qualname)}: the type checks that follow are made on '
                       f'the replacement, so a document of the wrong shape (a bare object where an array is required, null, 0, "") is '
                       f'accepted instead of raising DeserializationError')
    for n, need, text in uses:
        ok = False
        for g in guard_edges(cfg, n):
            ckd = classify_cond(prog, f, g.src.ast)
            if ckd.kind == 'isinstance' and ckd.subject == jp and (g.label == 'T') != ckd.negated:
                names = set(ckd.detail.split(','))
                if need == 'dict' and names <= {'dict'}:
                    ok = True
                if need == 'seq' and names <= {'list', 'tuple'}:
                    ok = True
        ck.ob('CONTAINER-GUARD', f'{short(f.qualname)}: `{text[:40]}` only under isinstance({need})', ok)
        if not ok:
            ck.finding('CONTAINER-GUARD', f.qualname, f'{need} use of JSON value unguarded: {text[:50]}', f.module.rel, n.line,
                       f'`{text}` uses the JSON argument as a {"mapping" if need == "dict" else "sequence"} without a dominating '
                       f'isinstance check: a JSON value of another type raises TypeError/AttributeError instead of DeserializationError')



HASH_METHODS = {'add', 'discard', 'remove', 'get', 'setdefault', 'pop', '__contains__', 'index', 'count'}


def hash_use_problems(prog: Program, f: FuncInfo) -> Tuple[int, List[Tuple[int, str, str]]]:
    """HASH-JSON.  A value read out of the JSON document may be an array or an object, which cannot be hashed: putting it into a
    set, using it as a mapping key or testing its membership in a set / mapping raises TypeError unless a type test on the same
    value (resolved per JSON type, as for FIELD-GUARD) keeps arrays and objects away.  Returns (#hash uses examined, problems)."""
    from ..flow import Flow
    cfg = CFG(f, prog)
    jp = json_param(f)
    fl = Flow(cfg)
    derived: Set[str] = {jp}

    def is_derived(e: ast.AST, extra: Set[str] = frozenset()) -> bool:     # type: ignore[assignment]
        if isinstance(e, ast.Name):
            return e.id in derived or e.id in extra
        if isinstance(e, ast.Subscript):
            return is_derived(e.value, extra)
        if isinstance(e, ast.Call) and isinstance(e.func, ast.Attribute) and e.func.attr in ('get', 'pop', 'values', 'items', 'keys', 'copy'):
            return is_derived(e.func.value, extra)
        if isinstance(e, ast.Call) and dotted(e.func) in ('enumerate', 'reversed', 'sorted', 'list', 'tuple', 'iter', 'next') and e.args:
            return is_derived(e.args[0], extra)
        if isinstance(e, ast.IfExp):
            return is_derived(e.body, extra) or is_derived(e.orelse, extra)
        if isinstance(e, ast.BoolOp):
            return any(is_derived(v, extra) for v in e.values)
        if isinstance(e, ast.NamedExpr):
            return is_derived(e.value, extra)
        if isinstance(e, ast.Starred):
            return is_derived(e.value, extra)
        return False
    for _ in range(6):
        before = len(derived)
        for n in cfg.nodes:
            a = n.ast
            if n.kind == 'next' and is_derived(a.iter):
                derived |= {x.id for x in ast.walk(a.target) if isinstance(x, ast.Name)}
            elif isinstance(a, (ast.Assign, ast.AnnAssign)) and getattr(a, 'value', None) is not None and is_derived(a.value):
                for t in (a.targets if isinstance(a, ast.Assign) else [a.target]):
                    derived |= {x.id for x in ast.walk(t) if isinstance(x, ast.Name)}
            for frag in node_exprs(n):
                for x in walk_no_defs(frag):
                    if isinstance(x, ast.NamedExpr) and is_derived(x.value):
                        derived.add(x.target.id)
        if len(derived) == before:
            break

    def container_kind(e: ast.AST, n: Node) -> Optional[str]:
        """'set' / 'dict' when the expression is known to be a hash container"""
        if isinstance(e, (ast.Set, ast.SetComp)):
            return 'set'
        if isinstance(e, (ast.Dict, ast.DictComp)):
            return 'dict'
        if isinstance(e, ast.Call) and dotted(e.func) in ('set', 'frozenset'):
            return 'set'
        if isinstance(e, ast.Call) and dotted(e.func) in ('dict', 'collections.defaultdict', 'defaultdict', 'collections.OrderedDict', 'OrderedDict'):
            return 'dict'
        if isinstance(e, ast.Call) and isinstance(e.func, ast.Attribute) and e.func.attr == 'copy':
            return container_kind(e.func.value, n)
        if isinstance(e, ast.Name):
            if e.id == jp or e.id in derived:
                return None
            for st in walk_own(f.node):
                if isinstance(st, ast.AnnAssign) and isinstance(st.target, ast.Name) and st.target.id == e.id:
                    ann = norm(st.annotation)
                    if ann.startswith(('Set', 'set', 'FrozenSet', 'frozenset', 'typing.Set')):
                        return 'set'
                    if ann.startswith(('Dict', 'dict', 'typing.Dict', 'Mapping', 'MutableMapping', 'DefaultDict')):
                        return 'dict'
            kinds = set()
            for al in fl.alts(n, e):
                if al.expr is e or isinstance(al.expr, ast.Name):
                    return None
                kinds.add(container_kind(al.expr, n))
            if len(kinds) == 1:
                return next(iter(kinds))
            return None
        if isinstance(e, ast.Attribute) and dotted(e.value) in ('self', 'cls'):
            # instance state declared as a set / mapping in the class
            ci = f.cls
            while ci is not None:
                ann = ci.attr_ann.get(e.attr) if hasattr(ci, 'attr_ann') else None
                if ann is not None:
                    t = norm(ann)
                    if t.startswith(('Set', 'set', 'FrozenSet')):
                        return 'set'
                    if t.startswith(('Dict', 'dict', 'Mapping', 'DefaultDict')):
                        return 'dict'
                break
        return None
    uses: List[Tuple[Node, ast.AST, str]] = []
    for n in cfg.nodes:
        if n.kind in ('entry', 'exit', 'raise', 'handler', 'reraise'):
            continue
        for frag in node_exprs(n):
            for x in ast.walk(frag):
                comp_targets: Set[str] = set()
                if isinstance(x, (ast.SetComp, ast.DictComp, ast.GeneratorExp, ast.ListComp)):
                    for g in x.generators:
                        if is_derived(g.iter, comp_targets):
                            comp_targets |= {y.id for y in ast.walk(g.target) if isinstance(y, ast.Name)}
                if isinstance(x, ast.SetComp) and is_derived(x.elt, comp_targets):
                    if not _comp_guarded(x, x.elt):
                        uses.append((n, x.elt, f'element of the set `{norm(x)[:50]}`'))
                elif isinstance(x, ast.DictComp) and is_derived(x.key, comp_targets):
                    if not _comp_guarded(x, x.key):
                        uses.append((n, x.key, f'key of the mapping `{norm(x)[:50]}`'))
                elif isinstance(x, ast.Call) and dotted(x.func) in ('set', 'frozenset', 'dict.fromkeys') and x.args:
                    a0 = x.args[0]
                    if isinstance(a0, (ast.GeneratorExp, ast.ListComp)):
                        ct: Set[str] = set()
                        for g in a0.generators:
                            if is_derived(g.iter, ct):
                                ct |= {y.id for y in ast.walk(g.target) if isinstance(y, ast.Name)}
                        if is_derived(a0.elt, ct) and not _comp_guarded(a0, a0.elt):
                            uses.append((n, a0.elt, f'element of `{norm(x)[:50]}`'))
                    elif is_derived(a0):
                        uses.append((n, a0, f'elements of `{norm(x)[:50]}`'))
                elif isinstance(x, ast.Set):
                    for el in x.elts:
                        if is_derived(el):
                            uses.append((n, el, f'element of the set `{norm(x)[:50]}`'))
                elif isinstance(x, ast.Dict):
                    for k in x.keys:
                        if k is not None and is_derived(k):
                            uses.append((n, k, f'key of the mapping `{norm(x)[:50]}`'))
                elif isinstance(x, ast.Compare) and len(x.ops) == 1 and isinstance(x.ops[0], (ast.In, ast.NotIn)) and is_derived(x.left):
                    if container_kind(x.comparators[0], n) is not None:
                        uses.append((n, x.left, f'membership test `{norm(x)[:60]}`'))
                elif isinstance(x, ast.Call) and isinstance(x.func, ast.Attribute) and x.func.attr in HASH_METHODS and x.args and \
                        is_derived(x.args[0]) and not is_derived(x.func.value):
                    ck_ = container_kind(x.func.value, n)
                    if ck_ is not None and not (ck_ == 'dict' and x.func.attr in ('index', 'count')):
                        uses.append((n, x.args[0], f'`{norm(x)[:60]}`'))
                elif isinstance(x, ast.Subscript) and is_derived(x.slice) and not is_derived(x.value) and container_kind(x.value, n) == 'dict':
                    uses.append((n, x.slice, f'key in `{norm(x)[:60]}`'))
                elif isinstance(x, ast.Call) and dotted(x.func) == 'hash' and x.args and is_derived(x.args[0]):
                    uses.append((n, x.args[0], f'`{norm(x)[:60]}`'))
    problems: List[Tuple[int, str, str]] = []
    for n, e, what in uses:
        var = e.id if isinstance(e, ast.Name) else None
        reaches = {'list', 'dict'}
        if var is not None and var != jp:
            conds = []
            for c in cfg.nodes:
                if c.kind != 'cond':
                    continue
                ckd = classify_cond(prog, f, c.ast)
                if ckd.subject != var:
                    continue
                if ckd.kind == 'isinstance':
                    names = set(ckd.detail.split(','))
                    if names <= {'bool', 'int', 'float', 'str', 'list', 'dict', 'tuple', 'NoneType'}:
                        conds.append((c, names, ckd.negated))
                elif ckd.kind == 'is-none':
                    conds.append((c, {'NoneType'}, ckd.negated))
            starts = fl.defs_at(n, var) or [cfg.entry]
            reaches = set()
            for tag in ('list', 'dict'):
                wrong = []
                for c, names, negated in conds:
                    holds = (tag in names) != negated
                    wrong += [ed for ed in cfg.succ[c.id] if ed.label in ('T', 'F') and (ed.label == 'T') != holds]
                if any(n.id in cfg.reachable(d, avoid_edges=wrong) or d is n for d in starts):
                    reaches.add(tag)
        if reaches:
            kinds = ' or '.join('a JSON array' if t == 'list' else 'a JSON object' for t in sorted(reaches))
            problems.append((n.line, f'unhashable JSON value hashed: {what[:60]}',
                             f'{what}: `{norm(e)}` comes out of the JSON document and can be {kinds} here; hashing it raises TypeError '
                             f'(unhashable type), which is neither DeserializationError nor IdentityError'))
    return len(uses), problems


def _comp_guarded(comp: ast.AST, e: ast.expr) -> bool:
    """a condition of the comprehension restricts the hashed expression to scalars: `.. if isinstance(<e>, (int, str))`"""
    for g in comp.generators:       # type: ignore[attr-defined]
        for c in g.ifs:
            for t in (c.values if isinstance(c, ast.BoolOp) and isinstance(c.op, ast.And) else [c]):
                if isinstance(t, ast.Call) and dotted(t.func) == 'isinstance' and len(t.args) == 2 and norm(t.args[0]) == norm(e):
                    names = {dotted(y) for y in (t.args[1].elts if isinstance(t.args[1], ast.Tuple) else [t.args[1]])}
                    if names <= {'int', 'str', 'bool', 'float', 'bytes'}:
                        return True
    return False


def _hash_uses(ck: Check, prog: Program, f: FuncInfo) -> int:
    n, problems = hash_use_problems(prog, f)
    ck.ob('HASH-JSON', f'{short(f.qualname)}: {n} set / mapping-key use(s) of values taken from the JSON document, none can be an array or object',
          not problems, sample={'hash_uses': n})
    for line, construct, msg in problems:
        ck.finding('HASH-JSON', f.qualname, construct, f.module.rel, line, msg)
    return n


def dup_check_problems(prog: Program, f: FuncInfo) -> List[Tuple[int, str]]:
    """_add_ids: an id is skipped only when it `is None`; an id already present raises IdentityError."""
    cfg = CFG(f, prog)
    out: List[Tuple[int, str]] = []
    heads = [n for n in cfg.nodes if n.kind == 'next']
    if len(heads) != 1:
        raise AnalysisError(f'{f.qualname}: id loop not recognised')
    idv = dotted(heads[0].ast.target)
    # the loop runs over the ids it was given: nothing may be filtered out before the check except None
    src_params = {p.arg for p in f.params[1:]}
    it = heads[0].ast.iter
    if dotted(it) not in src_params:
        from ..flow import Flow
        fl = Flow(cfg)
        itn = [n for n in cfg.nodes if n.kind == 'iter' and n.ast is it]
        sqs = fl.seq(itn[0] if itn else cfg.entry, it)
        for sq in sqs:
            base = sq.iter if sq.kind == 'iter' else sq.expr
            filt_ok = True
            for c_, pol_ in sq.filters:
                k_ = classify_cond(prog, f, c_)
                if not (k_.kind == 'is-none' and k_.negated == pol_):
                    filt_ok = False
            if sq.kind == 'literal' or (base is not None and dotted(base) not in src_params) or not filt_ok or sq.reordered:
                out.append((heads[0].line, f'the duplicate check runs over `{norm(it)[:60]}`, not over every id it was given: ids dropped by the '
                            f'filter (`filter(None, …)` drops 0 and "" as well as None) are never compared, so two elements with id 0 or "" are '
                            f'accepted as a batch'))
                break
    skips = [n for n in cfg.stmt_nodes() if isinstance(n.ast, ast.Continue)]
    for n in skips:
        for g in guard_edges(cfg, n):
            ckd = classify_cond(prog, f, g.src.ast)
            if ckd.subject == idv and ckd.kind == 'is-none' and (g.label == 'T') != ckd.negated:
                continue
            if ckd.subject == idv:
                out.append((n.line, f'ids are skipped from the duplicate check under `{norm(g.src.ast)}` ({g.label}): only a None id (notification) '
                            f'may be skipped — the ids 0 and "" are legitimate and must be checked for duplicates'))
    # every id is examined: the loop over the ids ends only by exhaustion or by raising
    h_ = heads[0]
    body0 = [e.dst for e in cfg.succ[h_.id] if e.label == 'body']
    if body0:
        fwd = {body0[0].id} | cfg.reachable(body0[0], avoid_nodes=[h_])
        in_loop = {i for i in fwd if i != h_.id and h_.id in cfg.reachable(cfg.nodes[i])}
        for u_id in sorted(in_loop):
            for e in cfg.succ[u_id]:
                if e.label == 'exc' or e.dst is h_ or e.dst.id in in_loop or e.dst.kind == 'raise' or isinstance(e.dst.ast, ast.Raise):
                    continue
                out.append((e.dst.line, f'`{norm(e.dst.ast)[:50]}` leaves the loop over the ids before every id was examined: the ids that follow '
                            f'(e.g. after a null id) are never compared, so a later duplicate is accepted'))
    raises = [n for n in cfg.stmt_nodes() if isinstance(n.ast, ast.Raise) and 'IdentityError' in norm(n.ast)]
    ok = False
    for n in raises:
        for g in guard_edges(cfg, n):
            e = g.src.ast
            if isinstance(e, ast.Compare) and isinstance(e.ops[0], ast.In) and dotted(e.left) == idv and g.label == 'T':
                ok = True
    if not ok:
        out.append((f.node.lineno, 'an id already present does not raise IdentityError'))
    # every non-None id is recorded
    adds = [n for n in cfg.stmt_nodes() for c in calls_in(n) if isinstance(c.func, ast.Attribute) and c.func.attr == 'add' and c.args and dotted(c.args[0]) == idv]
    if not adds:
        out.append((f.node.lineno, 'checked ids are not recorded for later duplicate checks'))
    else:
        # ... for good: when the ids are collected in a working copy, the copy is stored back on every path that returns normally
        recv = None
        for n in adds:
            for c in calls_in(n):
                if isinstance(c.func, ast.Attribute) and c.func.attr == 'add':
                    recv = dotted(c.func.value)
        if recv and not recv.startswith('self.'):
            commits = [n for n in cfg.stmt_nodes() if isinstance(n.ast, ast.Assign) and len(n.ast.targets) == 1 and
                       (dotted(n.ast.targets[0]) or '').startswith('self.') and dotted(n.ast.value) == recv]
            reached_without = cfg.exit.id in cfg.reachable(cfg.entry, avoid_nodes=commits + adds, edge_ok=lambda e: e.label != 'exc') if commits else True
            # a path that adds an id must pass a commit before the normal exit
            uncommitted = not commits or any(cfg.exit.id in cfg.reachable(a, avoid_nodes=commits, edge_ok=lambda e: e.label != 'exc') for a in adds)
            if uncommitted:
                out.append((adds[0].line, f'the ids are added to the working copy `{recv}` but it is not stored back (self.… = {recv}) on every returning path: '
                            f'the batch forgets the ids it has seen, so an id repeated by a later append / extend is accepted'))
    return out


MUTATORS = {'add', 'append', 'extend', 'update', 'insert', 'remove', 'discard', 'pop', 'clear', 'setdefault', 'sort',
            'reverse', 'popitem', '__setitem__', 'appendleft'}


def self_writes(f: FuncInfo, n: Node) -> List[str]:
    """self-state writes performed by node n: attribute stores and mutating calls on self attributes or on
    local aliases of self attributes."""
    out = []
    aliases = set()
    for st in walk_own(f.node):
        if isinstance(st, ast.Assign) and len(st.targets) == 1 and isinstance(st.targets[0], ast.Name):
            d = dotted(st.value)
            if d and d.startswith('self.') and d.count('.') == 1:
                aliases.add(st.targets[0].id)
    for frag in node_exprs(n):
        for x in walk_no_defs(frag):
            if isinstance(x, ast.Attribute) and isinstance(x.ctx, (ast.Store, ast.Del)) and dotted(x.value) == 'self':
                out.append(f'self.{x.attr} = …')
            elif isinstance(x, ast.Subscript) and isinstance(x.ctx, (ast.Store, ast.Del)):
                d = dotted(x.value)
                if d and (d.startswith('self.') or d in aliases):
                    out.append(f'{d}[…] = …')
            elif isinstance(x, ast.Call) and isinstance(x.func, ast.Attribute) and x.func.attr in MUTATORS:
                d = dotted(x.func.value)
                if d and (d.startswith('self.') or d in aliases):
                    out.append(f'{d}.{x.func.attr}(…)')
    return out


def _atomic_append(ck: Check, prog: Program, interp: Interp, only: Tuple[str, ...] = ()) -> None:
    found = 0
    for cq in (only or (V20 + '.BatchRequest', V20 + '.BatchResponse')):
        ci = prog.cls(cq)
        for mname in ('append', 'extend', '_add_ids'):
            f = ci.methods.get(mname)
            if f is None:
                # helper may have been renamed/inlined: only the public operations are anchors
                if mname.startswith('_'):
                    continue
                raise AnalysisError(f'{cq}.{mname} not found')
            found += 1
            ck.functions.add(f.qualname)
            res = interp.analyze(f, {EMPTY_ENV}, recv=cq)
            cfg = res.cfg
            raising = [cfg.nodes[nid] for nid, rs in res.node_raises.items() if any(c == IDENTITY for (c, _o) in rs)]
            bad: List[Tuple[Node, str, Node]] = []

            def writes_state(m: FuncInfo, seen: Set[str]) -> bool:
                # does own method m (transitively through own-method calls) write the batch's state?
                if m.qualname in seen:
                    return False
                seen.add(m.qualname)
                mcfg = CFG(m, prog)
                for mn in mcfg.stmt_nodes():
                    if self_writes(m, mn):
                        return True
                    for c_ in calls_in(mn):
                        if isinstance(c_.func, ast.Attribute) and dotted(c_.func.value) == 'self':
                            m2 = prog.find_method(ci, c_.func.attr)
                            if m2 is not None and writes_state(m2, seen):
                                return True
                return False
            for w in cfg.stmt_nodes():
                ws = self_writes(f, w)
                if not ws:
                    for c_ in calls_in(w):
                        if isinstance(c_.func, ast.Attribute) and dotted(c_.func.value) == 'self':
                            m2 = prog.find_method(ci, c_.func.attr)
                            if m2 is not None and m2 is not f and writes_state(m2, set()):
                                ws = [f'self.{c_.func.attr}(…) (writes the batch)']
                if not ws:
                    continue
                reach = cfg.reachable(w)
                for r in raising:
                    on_cycle = any(e_.label != 'exc' and w.id in cfg.reachable(e_.dst) for e_ in cfg.succ[w.id])
                    if r.id in reach and r is not w or (r is w and on_cycle):
                        bad.append((w, ws[0], r))
            ck.ob('ATOMIC-APPEND', f'{short(f.qualname)}: no write to the batch precedes a possible IdentityError', not bad,
                  sample={'raising_nodes': [n.line for n in raising]})
            for w, what, r in bad:
                ck.finding('ATOMIC-APPEND', f.qualname, f'{what} before possible IdentityError', f.module.rel, w.line,
                           f'`{what}` (line {w.line}) can be followed by IdentityError (line {r.line}): adding a duplicate id '
                           f'raises but leaves the batch modified')
            if mname == '_add_ids':
                dp = dup_check_problems(prog, f)
                ck.ob('DUP-CHECK', f'{short(f.qualname)}: only None ids are exempt from the duplicate check; a duplicate raises', not dp)
                for line, msg in dp:
                    ck.finding('DUP-CHECK', f.qualname, msg[:70], f.module.rel, line, msg)
            if mname in ('append', 'extend') and not raising:
                ck.finding('ATOMIC-APPEND', f.qualname, 'no duplicate-id check', f.module.rel, f.node.lineno,
                           f'{short(f.qualname)} can no longer raise IdentityError: duplicate ids are accepted')
    ck.require('ATOMIC-APPEND', 'batch mutation operations', found, 2 if only else 4)


def _empty_batch_request(ck: Check, prog: Program) -> None:
    f = prog.func(V20 + '.BatchRequest.from_json')
    cfg = CFG(f, prog)
    jp = json_param(f)
    # decided on reachability: with every test on the length / truth of the array resolved for the empty array, no `return` is reached
    import re as _re
    avoid = []
    n_tests = 0
    for c in cfg.nodes:
        if c.kind != 'cond':
            continue
        e_, neg = c.ast, False
        while isinstance(e_, ast.UnaryOp) and isinstance(e_.op, ast.Not):
            e_, neg = e_.operand, not neg
        truth = None
        if isinstance(e_, ast.Compare) and len(e_.ops) == 1:
            l_, r_ = e_.left, e_.comparators[0]
            is_len = lambda x: isinstance(x, ast.Call) and dotted(x.func) == 'len' and len(x.args) == 1 and dotted(x.args[0]) == jp     # noqa: E731
            num = lambda x: x.value if isinstance(x, ast.Constant) and isinstance(x.value, int) and not isinstance(x.value, bool) else None   # noqa: E731
            a_, b_ = (0, num(r_)) if is_len(l_) else (num(l_), 0) if is_len(r_) else (None, None)
            if a_ is not None and b_ is not None:
                op = type(e_.ops[0])
                table = {ast.Eq: a_ == b_, ast.NotEq: a_ != b_, ast.Lt: a_ < b_, ast.LtE: a_ <= b_, ast.Gt: a_ > b_, ast.GtE: a_ >= b_}
                truth = table.get(op)
        elif isinstance(e_, ast.Name) and e_.id == jp:
            truth = False
        elif isinstance(e_, ast.Call) and dotted(e_.func) == 'len' and len(e_.args) == 1 and dotted(e_.args[0]) == jp:
            truth = False
        if truth is None:
            continue
        n_tests += 1
        taken = truth != neg
        for ed in cfg.succ[c.id]:
            if ed.label in ('T', 'F') and (ed.label == 'T') != taken:
                avoid.append(ed)
    reach = cfg.reachable(cfg.entry, avoid_edges=avoid, edge_ok=lambda ed: ed.label != 'exc')
    rets = [n for n in cfg.stmt_nodes() if isinstance(n.ast, ast.Return) and n.id in reach]
    ok = n_tests > 0 and not rets
    ck.ob('FIELD-GUARD', 'BatchRequest.from_json rejects the empty array', ok)
    if not ok:
        ck.finding('FIELD-GUARD', f.qualname, 'empty batch accepted', f.module.rel, f.node.lineno,
                   'an empty array is not rejected: JSON-RPC 2.0 requires an Invalid Request answer for "[]"')


MUTANTS = [
    dict(name='batch-ids-prescanned-into-a-set', file='pjrpc/common/v20.py',
         find='        return cls(*(Request.from_json(request) for request in data))',
         replace='        seen = {item.get("id") for item in data if isinstance(item, dict)}\n        del seen\n'
                 '        return cls(*(Request.from_json(request) for request in data))', expect='HASH-JSON'),
    dict(name='response-id-used-as-mapping-key-before-its-type-check', file='pjrpc/common/v20.py', nth=0,
         find="            id = json_data.get('id')\n            if id is not None and (isinstance(id, bool) or not isinstance(id, (int, str))):",
         replace="            id = json_data.get('id')\n            seen: Dict[Any, int] = {}\n            seen[id] = 1\n"
                 "            if id is not None and (isinstance(id, bool) or not isinstance(id, (int, str))):", expect=['HASH-JSON', 'FIELD-GUARD']),
    dict(name='drop-method-type-check', file='pjrpc/common/v20.py',
         find="            if not isinstance(method, str):\n                raise DeserializationError(\"field 'method' must be of type string\")\n",
         replace='', expect='FIELD-GUARD'),
    dict(name='admit-float-ids', file='pjrpc/common/v20.py', nth=1,
         find='isinstance(id, (int, str))', replace='isinstance(id, (int, str, float))', expect='FIELD-GUARD'),
    dict(name='add-to-self-ids-in-loop', file='pjrpc/common/v20.py', nth=0,
         find='                    new_ids.add(id)\n', replace='                    self._ids.add(id)\n', expect='ATOMIC-APPEND'),
    dict(name='alias-instead-of-copy', file='pjrpc/common/v20.py', nth=1,
         find='new_ids = self._ids.copy()', replace='new_ids = self._ids', expect='ATOMIC-APPEND'),
    dict(name='append-before-check', file='pjrpc/common/v20.py',
         find='        self._add_ids(request.id)\n        self._requests.append(request)\n',
         replace='        self._requests.append(request)\n        self._add_ids(request.id)\n', expect='ATOMIC-APPEND'),
    dict(name='drop-empty-batch-check', file='pjrpc/common/v20.py',
         find='        if len(data) == 0:\n            raise DeserializationError("request list is empty")\n', replace='',
         expect='FIELD-GUARD'),
    dict(name='drop-keyerror-translation', file='pjrpc/common/v20.py', nth=1,
         find='        except KeyError as e:\n            raise DeserializationError(f"required field {e} not found") from e\n',
         replace='        except IndexError as e:\n            raise DeserializationError(f"required field {e} not found") from e\n',
         expect='ESC-FROMJSON'),
    dict(name='drop-dict-check', file='pjrpc/common/exceptions.py',
         find='            if not isinstance(json_data, dict):\n                raise DeserializationError("data must be of type dict")\n',
         replace='', expect='CONTAINER-GUARD'),
    dict(name='reintroduce-D4a-truthiness-xor', file='pjrpc/common/v20.py',
         find='if result is not UNSET and error is not UNSET:', replace='if result and error:', expect=['ESC-FROMJSON', 'SENT-TRUTH']),
    dict(name='reintroduce-D4b-code-truthiness', file='pjrpc/common/exceptions.py',
         find='assert code is not None or self.code is not None', replace='assert code or self.code', expect=['ESC-FROMJSON', 'SENT-TRUTH']),
    dict(name='reintroduce-D5-bool-id', file='pjrpc/common/v20.py', nth=0,
         find='(isinstance(id, bool) or not isinstance(id, (int, str)))', replace='not isinstance(id, (int, str))', expect='JSON-BOOL'),
    dict(name='reintroduce-D5-bool-code', file='pjrpc/common/exceptions.py',
         find='if isinstance(code, bool) or not isinstance(code, int):', replace='if not isinstance(code, int):', expect='JSON-BOOL'),
    dict(name='neither-result-nor-error-accepted', file='pjrpc/common/v20.py',
         find='            if result is UNSET and error is UNSET:\n                raise DeserializationError("\'result\' or \'error\' fields must be provided")\n',
         replace='', expect='ESC-FROMJSON'),
]
