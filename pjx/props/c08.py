"""C08 — the client matches responses to requests by id and rejects mismatches."""
from __future__ import annotations

import ast
from typing import List, Optional, Set, Tuple

from ..absint import EMPTY_ENV, Config, Interp, env_set
from ..cfg import CFG
from ..model import AnalysisError, ClassInfo, FuncInfo, Program, dotted, norm
from ..report import Check
from ..types import walk_own
from ..util import assigned_names, calls_in, classify_cond, const_value, guard_edges, short
from .cfacts import BASE_CLIENT, clients

BASE_BATCH = 'pjrpc.client.client.BaseBatch'
V20 = 'pjrpc.common.v20'
IDENTITY = 'pjrpc.common.exceptions.IdentityError'


def run(ck: Check, prog: Program) -> None:
    ck.explain('Structural rules over the two _relate validators and the batch result path: single: IdentityError is raised exactly on '
               'strict ∧ response.id is not None ∧ response.id != request.id (plain comparison, so "1" ≠ 1) and `related` is set on every '
               'accepting path; batch: id→response map, one pop per call, IdentityError for a miss and for leftovers under strict, '
               'duplicates rejected by the strict BatchResponse constructor; strict defaults to True; the sequence handed back by '
               'Batch.call / BatchResponse.result must be sequenced by the REQUEST batch (order provenance tracked from '
               'BatchResponse.from_json, which is server array order); Response.result raises whenever an error is set and '
               'BatchResponse.result raises the batch-level error first.')
    ck.not_decided.append('the permutation space itself — the rule shows whether order is taken from the request, which covers all permutations')
    base = prog.cls(BASE_CLIENT)
    rel = base.methods.get('_relate')
    if rel is None:
        raise AnalysisError('BaseAbstractClient._relate not found')
    ck.functions.add(rel.qualname)
    cfg = CFG(rel, prog)
    req, resp = rel.params[1].arg, rel.params[2].arg
    # ---- RELATE-STRICT (single) ------------------------------------------------------------------
    raises = [n for n in cfg.stmt_nodes() if isinstance(n.ast, ast.Raise)]
    problems: List[Tuple[str, int, str]] = []
    if len(raises) != 1 or 'IdentityError' not in norm(raises[0].ast):
        problems.append(('no IdentityError on id mismatch', rel.node.lineno, 'a response whose id differs from the request id must raise IdentityError in strict mode'))
    else:
        conj = set()
        for g in guard_edges(cfg, raises[0]):
            e = g.src.ast
            ckd = classify_cond(prog, rel, e)
            if ckd.kind == 'truthy' and ckd.subject == 'self.strict' and (g.label == 'T') != ckd.negated:
                conj.add('strict')
            elif ckd.kind == 'is-none' and ckd.subject == f'{resp}.id' and (g.label == 'T') == ckd.negated:
                conj.add('response-id-not-none')
            elif isinstance(e, ast.Compare) and isinstance(e.ops[0], ast.NotEq) and g.label == 'T' and \
                    {dotted(e.left), dotted(e.comparators[0])} == {f'{resp}.id', f'{req}.id'}:
                conj.add('ids-differ')
            elif isinstance(e, ast.Compare) and isinstance(e.ops[0], ast.Eq) and g.label == 'F' and \
                    {dotted(e.left), dotted(e.comparators[0])} == {f'{resp}.id', f'{req}.id'}:
                conj.add('ids-differ')
            else:
                conj.add(f'other:{norm(e)}:{g.label}')
        if conj != {'strict', 'response-id-not-none', 'ids-differ'}:
            problems.append((f'mismatch condition {sorted(conj)}', raises[0].line,
                             f'IdentityError must be raised iff strict ∧ response.id is not None ∧ response.id != request.id (plain comparison of the '
                             f'ids as deserialised); found {sorted(conj)}'))
    sets = [n for n in cfg.stmt_nodes() if isinstance(n.ast, ast.Assign) and dotted(n.ast.targets[0]) == f'{resp}.related' and dotted(n.ast.value) == req]
    if len(sets) != 1 or cfg.exit.id in cfg.reachable(cfg.entry, avoid_nodes=sets):
        problems.append(('accepted response is not linked to its request', rel.node.lineno,
                         f'every accepting path must set {resp}.related = {req}'))
    ck.ob('RELATE-STRICT', 'single: IdentityError iff strict ∧ id not None ∧ ids differ; related set on every accepting path', not problems)
    for c, line, msg in problems:
        ck.finding('RELATE-STRICT', rel.qualname, c, rel.module.rel, line, msg)
    # strict default
    init = base.methods['__init__']
    d = init.param_default('strict')
    okd = isinstance(d, ast.Constant) and d.value is True
    ck.ob('RELATE-STRICT', 'strict defaults to True', okd, nontrivial=False)
    if not okd:
        ck.finding('RELATE-STRICT', init.qualname, 'strict does not default to True', init.module.rel, init.node.lineno, 'strict mode must be the default')
    # ---- RELATE-STRICT (batch) -------------------------------------------------------------------
    bb = prog.cls(BASE_BATCH)
    brel = bb.methods.get('_relate')
    if brel is None:
        raise AnalysisError('BaseBatch._relate not found')
    ck.functions.add(brel.qualname)
    bcfg = CFG(brel, prog)
    breq, bresp = brel.params[1].arg, brel.params[2].arg
    p2: List[Tuple[str, int, str]] = []
    maps = [n for n in bcfg.stmt_nodes() if isinstance(n.ast, ast.Assign) and isinstance(n.ast.value, ast.DictComp)]
    mvar = None
    if len(maps) == 1:
        dc = maps[0].ast.value
        mvar = dotted(maps[0].ast.targets[0])
        g = dc.generators[0]
        tv = dotted(g.target)
        if not (dotted(dc.key) == f'{tv}.id' and dotted(dc.value) == tv and dotted(g.iter) == bresp):
            p2.append(('response map is not id → response', maps[0].line, f'`{norm(dc)}`'))
    else:
        raise AnalysisError(f'{brel.qualname}: id→response map not recognised')
    heads = [n for n in bcfg.nodes if n.kind == 'next' and dotted(n.ast.iter) == breq]
    if len(heads) != 1:
        p2.append(('requests are not iterated', brel.node.lineno, 'every call of the batch must be looked up in the response map'))
    else:
        h = heads[0]
        rv = dotted(h.ast.target)
        pops = [(n, c) for n in bcfg.stmt_nodes() for c in calls_in(n) if isinstance(c.func, ast.Attribute) and c.func.attr == 'pop'
                and dotted(c.func.value) == mvar]
        if len(pops) != 1 or dotted(pops[0][1].args[0]) != f'{rv}.id':
            p2.append(('one pop per call keyed by the request id expected', h.line, f'found {[norm(c) for _, c in pops]}'))
        miss = [n for n in bcfg.stmt_nodes() if isinstance(n.ast, ast.Raise) and h.id in bcfg.reachable(n) or
                (isinstance(n.ast, ast.Raise) and n.id in bcfg.reachable(h, edge_ok=lambda e: e.label != 'exhausted') and 'not found' in norm(n.ast))]
        miss = [n for n in bcfg.stmt_nodes() if isinstance(n.ast, ast.Raise) and n.id in bcfg.reachable(h, edge_ok=lambda e: e.label != 'exhausted')
                and 'IdentityError' in norm(n.ast)]
        ok_miss = False
        for n in miss:
            conj = set()
            for g in guard_edges(bcfg, n):
                ckd = classify_cond(prog, brel, g.src.ast)
                if ckd.kind == 'is-none' and (g.label == 'T') != ckd.negated and ckd.subject not in (f'{rv}.id',):
                    conj.add('response-missing')
                elif ckd.kind == 'truthy' and ckd.subject and ckd.subject.endswith('.strict') and (g.label == 'T') != ckd.negated:
                    conj.add('strict')
            if {'response-missing', 'strict'} <= conj:
                ok_miss = True
        if not ok_miss:
            p2.append(('missing response is not rejected', h.line, 'a call without a response must raise IdentityError in strict mode'))
        links = [n for n in bcfg.stmt_nodes() if isinstance(n.ast, ast.Assign) and (dotted(n.ast.targets[0]) or '').endswith('.related')
                 and dotted(n.ast.value) == rv]
        if len(links) != 1:
            p2.append(('accepted responses are not linked to their requests', h.line, 'response.related = request expected in the loop'))
        else:
            # the link is made exactly for the responses that were found
            lk = links[0]
            rvar = dotted(lk.ast.targets[0].value)
            from ..flow import Flow as _FlowK
            same = {rvar}
            for al in _FlowK(bcfg).alts(lk, lk.ast.targets[0].value):
                same |= set(al.names) | ({dotted(al.expr)} if dotted(al.expr) else set())
            found = None
            for g in guard_edges(bcfg, lk):
                ckd = classify_cond(prog, brel, g.src.ast)
                if ckd.kind == 'is-none' and ckd.subject in same:
                    found = (g.label == 'T') == ckd.negated      # True: runs when the response is NOT None
            if found is not True:
                p2.append(('responses are linked under the wrong condition', lk.line,
                           f'`{norm(lk.ast)}` must run exactly when the looked-up response is not None; found it '
                           f'{"when the response IS None" if found is False else "without a test of the looked-up response"}'))
        # every call of the batch is looked up: the loop over the requests ends only by exhaustion (or by raising), and an
        # iteration can avoid the lookup only for a notification (request id None)
        body_start = [e.dst for e in bcfg.succ[h.id] if e.label == 'body']
        if body_start:
            fwd = {body_start[0].id} | bcfg.reachable(body_start[0], avoid_nodes=[h])
            body = {i for i in fwd if i != h.id and (h.id in bcfg.reachable(bcfg.nodes[i]))}
            for u_id in sorted(body):
                u = bcfg.nodes[u_id]
                for e in bcfg.succ[u_id]:
                    if e.label == 'exc' or e.dst is h or e.dst.id in body or e.dst.kind in ('raise',) or isinstance(e.dst.ast, ast.Raise):
                        continue
                    u = e.dst
                    p2.append(('the loop over the calls can end before every call was looked up', u.line,
                               f'`{norm(u.ast)[:60]}` leaves the loop over {breq} (break / return): the calls that follow are never checked, so a '
                               f'batch response that omits them is accepted instead of raising IdentityError'))
            if len(pops) == 1:
                none_edges = []
                for c_ in bcfg.nodes:
                    if c_.kind == 'cond' and c_.id in body:
                        ckd = classify_cond(prog, brel, c_.ast)
                        if ckd.kind == 'is-none' and ckd.subject == f'{rv}.id':
                            none_edges += [e for e in bcfg.succ[c_.id] if e.label in ('T', 'F') and (e.label == 'T') != ckd.negated]
                        elif ckd.kind == 'truthy' and ckd.subject == f'{rv}.is_notification':
                            none_edges += [e for e in bcfg.succ[c_.id] if e.label in ('T', 'F') and (e.label == 'T') != ckd.negated]
                skip = bcfg.reachable(body_start[0], avoid_nodes=[pops[0][0]], avoid_edges=none_edges)
                if (h.id in skip or body_start[0] is h) and body_start[0] is not pops[0][0]:
                    p2.append(('a call can pass the loop without being looked up', h.line,
                               'an iteration for a request that has an id can reach the next one without the response-map lookup'))
    left = [n for n in bcfg.stmt_nodes() if isinstance(n.ast, ast.Raise) and 'IdentityError' in norm(n.ast) and
            (not heads or n.id in bcfg.reachable([e.dst for e in bcfg.succ[heads[0].id] if e.label == 'exhausted'][0]) or
             n is [e.dst for e in bcfg.succ[heads[0].id] if e.label == 'exhausted'][0])]
    ok_left = False
    for n in left:
        conj = set()
        for g in guard_edges(bcfg, n):
            ckd = classify_cond(prog, brel, g.src.ast)
            if ckd.kind == 'truthy' and ckd.subject == mvar and (g.label == 'T') != ckd.negated:
                conj.add('leftovers')
            elif ckd.kind == 'truthy' and ckd.subject and ckd.subject.endswith('.strict') and (g.label == 'T') != ckd.negated:
                conj.add('strict')
        if {'leftovers', 'strict'} <= conj:
            ok_left = True
    if not ok_left:
        p2.append(('unexpected responses are not rejected', brel.node.lineno, 'a response no call asked for must raise IdentityError in strict mode'))
    ck.ob('RELATE-STRICT', 'batch: id→response map, one pop per call, IdentityError for misses and leftovers under strict', not p2)
    for c, line, msg in p2:
        ck.finding('RELATE-STRICT', brel.qualname, c, brel.module.rel, line, f'{c}: {msg}')
    # the whole relate block runs for every batch response that is not a batch-level error: no other guard may skip it
    if heads:
        itn = [m for m in bcfg.nodes if m.kind == 'iter' and m.ast is heads[0].ast.iter]
        start = maps[0] if maps else (itn[0] if itn else heads[0])
        from ..absint import Interp as _I2
        for g in guard_edges(bcfg, start):
            ckd = classify_cond(prog, brel, g.src.ast)
            if ckd.subject in (f'{bresp}.is_success',) or ckd.subject in (f'{bresp}.is_error',):
                continue
            if ckd.kind == 'truthy' and ckd.subject == bresp:
                if not _I2(prog).always_truthy(V20 + '.BatchResponse'):
                    ck.finding('RELATE-STRICT', brel.qualname, 'relate block skipped for an empty batch response', brel.module.rel, g.src.line,
                               f'`{norm(g.src.ast)}` guards the id matching by the truthiness of the batch response, and BatchResponse defines __len__: '
                               f'an EMPTY response array is falsy, so a server answering a batch of calls with [] is accepted without IdentityError')
            elif ckd.subject and ckd.subject.endswith('.strict'):
                # strictness decides whether mismatches RAISE; the linking of every accepted response to its request happens either way
                ck.finding('RELATE-STRICT', brel.qualname, 'the whole relate block runs only in strict mode', brel.module.rel, g.src.line,
                           f'`{norm(g.src.ast)}` stands in front of the id matching as a whole: in non-strict mode no response of a batch is linked '
                           f'to the request with the same id (`related` stays None), although every accepted response must be')
            else:
                raise AnalysisError(f'{brel.qualname}: unrecognised guard `{norm(g.src.ast)}` around the id matching')
    # ids of the wrong JSON type are rejected when the response is deserialised
    from . import c06 as _c06
    mprog = _c06.model_program(prog)
    rfj = mprog.func(V20 + '.Response.from_json')
    ck.functions.add(rfj.qualname)
    _c06._field_guards(ck, mprog, rfj)
    # "a JSON body that is not a valid JSON-RPC response (or response array) raises the deserialisation error"
    for q_ in (V20 + '.Response.from_json', V20 + '.BatchResponse.from_json'):
        fq_ = mprog.func(q_)
        ck.functions.add(fq_.qualname)
        _c06._container_guard(ck, mprog, fq_)
    # every single response is related to its request: the validator call in _send is unconditional for calls
    from .c07 import send_facts
    from .cfacts import client_program, clients
    cprog = client_program(prog)
    for cr in clients(cprog):
        ck.functions.add(cr.send_impl.qualname)
        _, sp = send_facts(cprog, cr)
        bad = [p_ for p_ in sp if 'related' in p_[1]]
        ck.ob('RELATE-STRICT', f'{cr.cls.name}._send relates every decoded response to its request (validator called unconditionally for calls)', not bad)
        for rule_, construct, line, msg in bad:
            ck.finding('RELATE-STRICT', cr.send_impl.qualname, construct, cr.cls.module.rel, line, msg)
    # duplicates: strict ctor default
    binit = prog.func(V20 + '.BatchResponse.__init__')
    dd = binit.param_default('strict')
    fj = prog.func(V20 + '.BatchResponse.from_json')
    no_override = not any(isinstance(x, ast.Call) and any(kw.arg == 'strict' for kw in x.keywords) for x in walk_own(fj.node))
    ck.ob('RELATE-STRICT', 'duplicate response ids are rejected by the strict BatchResponse constructor used by from_json',
          isinstance(dd, ast.Constant) and dd.value is True and no_override)
    if not (isinstance(dd, ast.Constant) and dd.value is True and no_override):
        ck.finding('RELATE-STRICT', fj.qualname, 'duplicate response ids accepted', fj.module.rel, fj.node.lineno,
                   'a batch response that repeats an id must raise IdentityError: from_json must build the batch with strict=True')
    # a repeated id is detected for every way responses enter the batch, and before the batch is modified
    _c06._atomic_append(ck, prog, Interp(prog), only=(V20 + '.BatchResponse',))
    addf = prog.func(V20 + '.BatchResponse._add_ids')
    ck.functions.add(addf.qualname)
    dp = _c06.dup_check_problems(prog, addf)
    ck.ob('RELATE-STRICT', 'BatchResponse._add_ids: every id but None takes part in the duplicate check; a repeated id raises IdentityError', not dp)
    for line, msg in dp:
        ck.finding('RELATE-STRICT', addf.qualname, msg[:70], addf.module.rel, line, msg)
    # ---- ORDER-BY-REQUEST -------------------------------------------------------------------------
    _order_by_request(ck, prog, brel, bcfg, breq, bresp)
    # ---- ERROR-RAISED -----------------------------------------------------------------------------
    interp = Interp(prog)
    rr = prog.func(V20 + '.Response.result')
    inv = interp.invariant(V20 + '.Response') or set()
    err_envs = {e for e in inv if dict(e).get('self._error') and 'U' not in dict(e)['self._error']}
    ok_envs = {e for e in inv if dict(e).get('self._error') == frozenset('U')}
    res_err = interp.analyze(rr, err_envs or {EMPTY_ENV}, recv=V20 + '.Response')
    res_ok = interp.analyze(rr, ok_envs or {EMPTY_ENV}, recv=V20 + '.Response')
    ok_r = bool(err_envs) and not res_err.exit_envs and any(prog.exc_subclass(c, 'pjrpc.common.exceptions.JsonRpcError') for c in res_err.raised_classes()) \
        and not res_ok.raises and bool(res_ok.exit_envs)
    ck.functions.add(rr.qualname)
    ck.ob('ERROR-RAISED', 'Response.result raises the error on every path where an error is set and returns otherwise', ok_r,
          sample={'error_set_envs': len(err_envs), 'raised': sorted(res_err.raised_classes())})
    if not ok_r:
        ck.finding('ERROR-RAISED', rr.qualname, 'server error not raised to the caller', rr.module.rel, rr.node.lineno,
                   'reading the result of a response that carries an error must raise that error (and a success must not raise)')
    br = prog.func(V20 + '.BatchResponse.result')
    bcfg2 = CFG(br, prog)
    heads2 = [n for n in bcfg2.nodes if n.kind == 'next']
    first_raise = [n for n in bcfg2.stmt_nodes() if isinstance(n.ast, ast.Raise) and not any(n.id in bcfg2.reachable(h) for h in heads2)]
    ok_b = False
    for n in first_raise:
        for g in guard_edges(bcfg2, n):
            ckd = classify_cond(prog, br, g.src.ast)
            if ckd.subject in ('self.is_error',) and (g.label == 'T') != ckd.negated:
                ok_b = True
            if ckd.subject == 'self.is_success' and (g.label == 'F') != ckd.negated:
                ok_b = True
            if ckd.kind == 'is-unset' and ckd.subject in ('self._error', 'self.error') and (g.label == 'T') == ckd.negated:
                ok_b = True
    ck.functions.add(br.qualname)
    ck.ob('ERROR-RAISED', 'BatchResponse.result raises the batch-level error before looking at the elements', ok_b)
    if not ok_b:
        ck.finding('ERROR-RAISED', br.qualname, 'batch-level error not raised', br.module.rel, br.node.lineno,
                   'a batch-level error object must be raised for the batch')
    # `related` is a plain stored link: what _relate stores is what the caller reads back (getter returns the attribute the setter writes)
    for cq_ in (V20 + '.Response', V20 + '.BatchResponse'):
        rc_ = prog.cls(cq_)
        getter = next((m for m in prog.funcs.values() if m.cls is rc_ and m.name == 'related' and m.kind == 'property'), None)
        setter = next((m for m in prog.funcs.values() if m.cls is rc_ and m.name == 'related' and m.kind == 'setter'), None)
        if getter is None or setter is None:
            raise AnalysisError(f'{cq_}.related property pair not found')
        ck.functions |= {getter.qualname, setter.qualname}
        g_attr = None
        for x in walk_own(getter.node):
            if isinstance(x, ast.Return) and x.value is not None and dotted(x.value) and dotted(x.value).startswith('self.'):
                g_attr = dotted(x.value)
        s_attr = None
        sparam = setter.params[1].arg if len(setter.params) > 1 else None
        for x in walk_own(setter.node):
            if isinstance(x, ast.Assign) and len(x.targets) == 1 and dotted(x.targets[0]) and dotted(x.targets[0]).startswith('self.') and \
                    dotted(x.value) == sparam:
                s_attr = dotted(x.targets[0])
        ok_rel = g_attr is not None and g_attr == s_attr
        ck.ob('RELATE-STRICT', f'{rc_.name}.related returns what the setter stored', ok_rel, sample={'getter': g_attr, 'setter': s_attr})
        if not ok_rel:
            ck.finding('RELATE-STRICT', getter.qualname, 'related link is not stored / not returned', rc_.module.rel, getter.node.lineno,
                       f'{rc_.name}.related: the getter returns `{g_attr}` and the setter stores `{s_attr}`: the request a response was related to '
                       f'by _relate is not what the caller reads back')
    # the batch-level error form is recognised exactly for an object without id that carries an error
    bfj = prog.func(V20 + '.BatchResponse.from_json')
    ck.functions.add(bfj.qualname)
    fcfg = CFG(bfj, prog)
    from ..flow import Flow as _FlowB
    ffl = _FlowB(fcfg)
    err_alts = []
    for n in fcfg.stmt_nodes():
        if n.kind == 'stmt' and isinstance(n.ast, ast.Return) and n.ast.value is not None:
            for al in ffl.alts(n, n.ast.value):
                if isinstance(al.expr, ast.Call) and any(k.arg == 'error' for k in al.expr.keywords):
                    err_alts.append((n, al))
    okbe = bool(err_alts)
    whybe = 'no `return cls(error=...)`'
    for n, al in err_alts:
        conj = set()
        def member_read(c_expr, subject: str) -> Set[str]:
            """the member name(s) of the document the tested variable was read from (`data.get('id')`, `data['id']`)"""
            out_: Set[str] = set()
            nodes_ = fcfg.nodes_of(c_expr)
            if not nodes_:
                return out_
            try:
                sub_e = ast.parse(subject, mode='eval').body
            except SyntaxError:
                return out_
            for a2 in ffl.alts(nodes_[0], sub_e):
                v2 = a2.expr
                if isinstance(v2, ast.Call) and isinstance(v2.func, ast.Attribute) and v2.func.attr == 'get' and v2.args and \
                        isinstance(v2.args[0], ast.Constant):
                    out_.add(str(v2.args[0].value))
                elif isinstance(v2, ast.Subscript) and isinstance(v2.slice, ast.Constant):
                    out_.add(str(v2.slice.value))
                else:
                    out_.add('?' + norm(v2)[:30])
            return out_
        for c_, pol in al.guards:
            ckd = classify_cond(prog, bfj, c_)
            if ckd.kind == 'is-none' and pol != ckd.negated and ckd.subject and 'error' not in ckd.subject.lower():
                rd = member_read(c_, ckd.subject)
                if rd <= {'id'} or any(r.startswith('?') for r in rd):
                    conj.add('id-none')
                else:
                    conj.add(f'member {sorted(rd)[0]!r} is null (not the id)')
            if ckd.kind == 'is-unset' and pol == ckd.negated:
                rd = member_read(c_, ckd.subject) if ckd.subject else set()
                if rd <= {'error'} or any(r.startswith('?') for r in rd):
                    conj.add('error-set')
                else:
                    conj.add(f'member {sorted(rd)[0]!r} is present (not the error)')
            if ckd.kind == 'isinstance' and 'dict' in ckd.detail and pol != ckd.negated:
                conj.add('object')
        if not {'id-none', 'error-set', 'object'} <= conj:
            okbe = False
            whybe = f'`{norm(al.expr)[:60]}` is returned under {sorted(conj)} only'
    ck.ob('ERROR-RAISED', 'BatchResponse.from_json: the batch-level error form is an object with null id AND an error member', okbe)
    if not okbe:
        ck.finding('ERROR-RAISED', bfj.qualname, 'batch-level error form recognised under another condition', bfj.module.rel, bfj.node.lineno,
                   f'the batch-level error branch must be taken exactly for a JSON object whose id is null and that has an error member; {whybe}: '
                   f'a single response with an id is taken for a batch-level error, or an object without error raises KeyError-derived noise')
    # ... and that property is what the batch notations hand back: Batch.call / AsyncBatch.call return `response.result` (which raises),
    # not something rebuilt from the elements (a batch-level error has no elements)
    from ..flow import Flow as _FlowC
    for cq in ('pjrpc.client.client.Batch', 'pjrpc.client.client.AsyncBatch'):
        ci_ = prog.cls(cq)
        cm = ci_.methods.get('call')
        if cm is None:
            raise AnalysisError(f'{cq}.call not found')
        ck.functions.add(cm.qualname)
        ccfg = CFG(cm, prog)
        cfl = _FlowC(ccfg)
        bad_ret = []
        n_ret = 0
        for n in ccfg.stmt_nodes():
            if n.kind == 'stmt' and isinstance(n.ast, ast.Return) and n.ast.value is not None:
                for al in cfl.alts(n, n.ast.value):
                    v = al.expr
                    n_ret += 1
                    if isinstance(v, ast.Constant) and v.value is None:
                        continue
                    if isinstance(v, ast.Attribute) and v.attr == 'result':
                        continue
                    bad_ret.append((n.line, norm(v)[:70]))
        ck.ob('ERROR-RAISED', f'{ci_.name}.call returns the batch response\'s `result` (the property that raises a batch-level or element error)',
              not bad_ret and n_ret > 0)
        for line, txt in bad_ret:
            ck.finding('ERROR-RAISED', cm.qualname, f'batch call returns `{txt[:40]}`', cm.module.rel, line,
                       f'{ci_.name}.call returns `{txt}` instead of `response.result`: a batch answered with a batch-level error (one error object, '
                       f'no elements) yields an empty result instead of raising the error')
    # "a JSON body that is not a valid JSON-RPC response raises the deserialisation error": result / error presence is read with UNSET
    # as the absent marker, so that `"error": null` next to a result (or a falsy error) is not taken for an absent member
    from . import c06 as _c06x
    _c06x._presence_by_identity(ck, _c06x.model_program(prog))


def result_iteration(prog: Program):
    """(attribute iterated by BatchResponse.result, (reordering function, line, text) or None)."""
    br = prog.func(V20 + '.BatchResponse.result')
    it_attr = None
    reorder = None
    for x in walk_own(br.node):
        if isinstance(x, (ast.For, ast.comprehension)):
            it = x.iter
            if dotted(it) and dotted(it).startswith('self.'):
                it_attr = dotted(it)[5:]
            elif isinstance(it, ast.Call) and dotted(it.func) in ('sorted', 'reversed', 'set', 'frozenset') and it.args and \
                    dotted(it.args[0]) and dotted(it.args[0]).startswith('self.'):
                it_attr = dotted(it.args[0])[5:]
                reorder = (dotted(it.func), getattr(x, 'lineno', br.node.lineno), norm(it)[:80])
            elif isinstance(it, ast.Subscript) and isinstance(it.slice, ast.Slice) and dotted(it.value) and dotted(it.value).startswith('self.'):
                it_attr = dotted(it.value)[5:]
                if it.slice.step is not None:
                    reorder = ('a stepped slice', getattr(x, 'lineno', br.node.lineno), norm(it))
    return it_attr, reorder


def _order_by_request(ck: Check, prog: Program, brel: FuncInfo, bcfg: CFG, breq: str, bresp: str) -> None:
    """Somewhere on _relate → call → result the sequence handed back must be built/sorted by iterating the REQUEST batch."""
    # what does Batch.call hand back?  response.result of the BatchResponse -> iterates self._responses
    br = prog.func(V20 + '.BatchResponse.result')
    it_attr, reorder = result_iteration(prog)
    if reorder:
        ck.finding('ORDER-BY-REQUEST', br.qualname, f'batch results re-ordered by {reorder[0]}', br.module.rel, reorder[1],
                   f'BatchResponse.result iterates `{reorder[2]}`: the result tuple is ordered by {reorder[0]}, neither the order of the calls '
                   f'nor even the server\'s array: results read by position are attributed to the wrong calls whenever that order differs '
                   f'from the order the calls were made')
    if it_attr is None:
        raise AnalysisError(f'{br.qualname}: iteration over the stored responses not recognised')
    # order provenance of that attribute: from_json builds it from the server array in array order (C05 BATCH-FORM)
    # re-sequencing: inside _relate (the only code that sees both batches) a loop over the request batch must write that order back
    reseq = False
    heads = [n for n in bcfg.nodes if n.kind == 'next' and dotted(n.ast.iter) == breq]
    for h in heads:
        body = [n for n in bcfg.stmt_nodes() if n.id in bcfg.reachable(h, edge_ok=lambda e: e.label != 'exhausted') and h.id in bcfg.reachable(n)]
        collected: Set[str] = set()
        for n in body:
            for c in calls_in(n):
                if isinstance(c.func, ast.Attribute) and c.func.attr == 'append' and isinstance(c.func.value, ast.Name):
                    collected.add(c.func.value.id)
        after = [n for n in bcfg.stmt_nodes() if n.id in bcfg.reachable(h)]
        for n in after:
            txt = norm(n.ast)
            if any(v in txt for v in collected) and (f'{bresp}.{it_attr}' in txt or f'{bresp}._' in txt or 'reorder' in txt or 'sort' in txt):
                reseq = True
    for x in walk_own(brel.node):
        if isinstance(x, ast.Call) and isinstance(x.func, ast.Attribute) and x.func.attr in ('sort', 'reorder', 'resequence') and \
                breq in norm(x):
            reseq = True
    # alternatively Batch.call may build the tuple by iterating the requests and following `related`
    for cq in ('pjrpc.client.client.Batch', 'pjrpc.client.client.AsyncBatch'):
        call = prog.cls(cq).methods.get('call')
        if call is not None:
            ck.functions.add(call.qualname)
            for x in walk_own(call.node):
                if isinstance(x, (ast.For, ast.comprehension)) and 'self._requests' in norm(x.iter):
                    reseq = True
    ck.ob('ORDER-BY-REQUEST', 'batch results are sequenced by the request batch, not by the server\'s array', reseq,
          sample={'result_iterates': f'BatchResponse.{it_attr} (array order of the server, via from_json)',
                  'relate_loops_over_requests': len(heads)})
    if not reseq:
        ck.finding('ORDER-BY-REQUEST', brel.qualname, 'batch results follow the server\'s array order', brel.module.rel, brel.node.lineno,
                   f'Batch.call returns BatchResponse.result, which iterates `{it_attr}` in the order of the server\'s array '
                   f'(BatchResponse.from_json keeps array order); _relate iterates the requests but only sets `related` and never '
                   f're-sequences the responses: when the server answers in another order (allowed by JSON-RPC 2.0) results read by '
                   f'position / as a tuple are attributed to the wrong calls')


MUTANTS = [
    dict(name='duplicate-scan-stops-at-a-null-id', file='pjrpc/common/v20.py', nth=0,
         find='                if id is None:\n                    continue\n', replace='                if id is None:\n                    break\n',
         expect=['DUP-CHECK', 'RELATE-STRICT']),
    dict(name='relate-loop-stops-when-map-is-empty', file='pjrpc/client/client.py',
         find='                    elif response is not None:\n                        response.related = request\n',
         replace='                    elif response is not None:\n                        response.related = request\n'
                 '                    if not response_map:\n                        break\n', expect='RELATE-STRICT'),
    dict(name='compare-ids-as-strings', file='pjrpc/client/client.py', find='response.id is not None and response.id != request.id',
         replace='response.id is not None and str(response.id) != str(request.id)', expect='RELATE-STRICT'),
    dict(name='drop-leftover-check', file='pjrpc/client/client.py',
         find='            if response_map and self._client.strict:\n                raise exceptions.IdentityError(f"unexpected response found: {response_map.keys()}")\n',
         replace='', expect='RELATE-STRICT'),
    dict(name='skip-related', file='pjrpc/client/client.py', find='        response.related = request\n\n\nclass AbstractClient', replace='\n\nclass AbstractClient',
         expect='RELATE-STRICT'),
    dict(name='strict-default-false', file='pjrpc/client/client.py', find='        strict: bool = True,\n', replace='        strict: bool = False,\n', expect='RELATE-STRICT'),
    dict(name='missing-response-tolerated', file='pjrpc/client/client.py', find='if response is None and self._client.strict:',
         replace='if response is None and not self._client.strict:', expect='RELATE-STRICT'),
    dict(name='result-swallows-error', file='pjrpc/common/v20.py', find='        if self._error is not UNSET:\n            raise self.get_error()\n\n        return self._result',
         replace='        if self._error is not UNSET and self._result is UNSET and self._id is not None:\n            raise self.get_error()\n\n        return self._result',
         expect='ERROR-RAISED'),
    dict(name='batch-from_json-non-strict', file='pjrpc/common/v20.py', find='return cls(*(Response.from_json(item, error_cls=error_cls) for item in json_data))',
         replace='return cls(*(Response.from_json(item, error_cls=error_cls) for item in json_data), strict=False)', expect='RELATE-STRICT'),
    dict(name='null-id-response-rejected-always', file='pjrpc/client/client.py', find='if self.strict and response.id is not None and response.id != request.id:',
         replace='if self.strict and response.id != request.id:', expect='RELATE-STRICT'),
    dict(name='validator-only-for-success', file='pjrpc/client/client.py', nth=1, find='            validator(request, response)\n',
         replace='            if response.is_success:\n                validator(request, response)\n', expect='RELATE-STRICT'),
    dict(name='bare-object-wrapped-into-array', file='pjrpc/common/v20.py',
         find='            if not isinstance(json_data, (list, tuple)):\n                raise DeserializationError("data must be of type list")',
         replace='            if isinstance(json_data, dict):\n                json_data = [json_data]\n            if not isinstance(json_data, (list, tuple)):\n                raise DeserializationError("data must be of type list")',
         expect='CONTAINER-GUARD'),
]
