"""Fact extractors over the client halves (traced / retried wrappers, retry loops, _send, call notations)."""
from __future__ import annotations

import ast
from dataclasses import dataclass
from typing import Any, Dict, FrozenSet, List, Optional, Set, Tuple

from ..absint import EMPTY_ENV, Config, Interp, env_set
from ..cfg import CFG, Edge, Node, run_typestate, witness
from ..model import AnalysisError, ClassInfo, FuncInfo, Program, dotted, norm
from ..prov import Prov
from ..types import FuncScope, Scope, types_of, walk_own
from ..util import (assigned_names, calls_in, classify_cond, guard_edges, is_unset_expr, node_exprs, short, walk_no_defs)

Problem = Tuple[str, str, int, str]
BASE_CLIENT = 'pjrpc.client.client.BaseAbstractClient'
RETRY_MOD = 'pjrpc.client.retry'


@dataclass
class ClientRoles:
    cls: ClassInfo
    send_impl: FuncInfo          # the decorated _send
    traced: FuncInfo             # decorator function
    traced_wrapper: FuncInfo
    retried: FuncInfo
    retried_wrapper: FuncInfo
    call: FuncInfo
    notify: FuncInfo
    send: FuncInfo
    is_async: bool
    decorators: List[str]


def client_program(prog: Program) -> Program:
    """The program with private same-module helpers inlined into the client classes' methods and the retry functions
    (undoes "extract helper" refactorings of _send, the batch builders, the retry loops ...)."""
    from ..inline import inlined_program
    callers: List[str] = []
    for ci in prog.classes.values():
        if ci.module.name == 'pjrpc.client.client':
            callers += [m.qualname for m in ci.methods.values()]
    for f in prog.funcs.values():
        if f.module.name == RETRY_MOD and f.cls is None and f.parent is None and not f.name.startswith('_'):
            callers.append(f.qualname)
        if f.module.name == RETRY_MOD and f.cls is not None and f.parent is None:
            callers.append(f.qualname)
    return inlined_program(prog, callers, keep_callers=False)


def clients(prog: Program) -> List[ClientRoles]:
    base = prog.cls(BASE_CLIENT)
    out = []
    for ci in prog.subclasses(base, strict=True):
        if ci.module.name != 'pjrpc.client.client':
            continue
        impl = ci.methods.get('_send')
        if impl is None or not impl.decorators:
            continue
        deco_names = [dotted(d) for d in impl.decorators]
        traced = retried = None
        role_of: Dict[str, str] = {}
        for dn in deco_names:
            fn = ci.methods.get(dn or '')
            if fn is None and dn and '.' not in dn:
                # the decorator may live at module level instead of in the class body
                ent = prog.attr_of(ci, dn)
                if isinstance(ent, tuple) and len(ent) == 3 and ent[0] == 'value':      # class-level alias `traced = _traced`
                    ent = prog.resolve(ent[1], ent[2])
                if not isinstance(ent, FuncInfo):
                    ent = prog.module_attr(ci.module, dn)
                fn = ent if isinstance(ent, FuncInfo) else None
            if fn is None or not fn.nested:
                continue
            w = list(fn.nested.values())[0]
            attrs = {x.attr for x in ast.walk(w.node) if isinstance(x, ast.Attribute)}
            if 'on_request_begin' in attrs or 'on_request_end' in attrs or 'on_error' in attrs:
                traced = fn
                role_of[dn or '?'] = 'traced'
            elif any(isinstance(x, ast.Attribute) and x.attr in ('retry', 'retry_async') for x in ast.walk(w.node)) or \
                    'retry' in (dn or ''):
                retried = fn
                role_of[dn or '?'] = 'retried'
        if traced is None or retried is None:
            raise AnalysisError(f'{ci.qualname}._send: tracing / retrying decorators not recognised among {deco_names}')
        for need in ('call', 'notify', 'send'):
            if need not in ci.methods:
                raise AnalysisError(f'{ci.qualname}.{need} not found')
        out.append(ClientRoles(ci, impl, traced, list(traced.nested.values())[0], retried, list(retried.nested.values())[0],
                               ci.methods['call'], ci.methods['notify'], ci.methods['send'], impl.is_async,
                               [role_of.get(d or '?', d or '?') for d in deco_names]))
    if len(out) < 2:
        raise AnalysisError(f'expected the synchronous and the asynchronous abstract client, found {len(out)}')
    return out


def retry_loops(prog: Program) -> List[Tuple[FuncInfo, FuncInfo]]:
    """(outer retry function, nested attempt loop) pairs in pjrpc.client.retry."""
    out = []
    for f in prog.funcs.values():
        if f.module.name == RETRY_MOD and f.cls is None and f.parent is None and f.nested and len(f.params) >= 2:
            w = list(f.nested.values())[0]
            if any(isinstance(x, ast.Call) and dotted(x.func) == f.params[0].arg for x in ast.walk(w.node)):
                out.append((f, w))
    if len(out) < 2:
        raise AnalysisError(f'expected retry and retry_async, found {len(out)}')
    return out


def strip_await(e: Optional[ast.AST]) -> Optional[ast.AST]:
    while isinstance(e, ast.Await):
        e = e.value
    return e


# ----------------------------------------------------------------------------------------------
# traced wrapper typestate
# ----------------------------------------------------------------------------------------------

def tracer_interp(prog: Program) -> Interp:
    prov = Prov(prog)

    def policy(f: FuncInfo, call: ast.Call, scope: Scope) -> Optional[Set[str]]:
        org = prov.origins(call.func, f)
        # the decorated transport method: anything may come out, including BaseException (cancellation)
        if any(o[0] == 'param' and o[3] in ('method', 'func') for o in org):
            return {'BaseException+'}
        return set()
    return Interp(prog, Config(user_raises=policy))


def _callback_loops(cfg: CFG, f: FuncInfo) -> Dict[int, Tuple[str, Node, ast.Call]]:
    """iter-node id -> (callback name, loop head, call) for `for t in <tracers>: t.<callback>(...)` loops."""
    out: Dict[int, Tuple[str, Node, ast.Call]] = {}
    for head in cfg.nodes:
        if head.kind != 'next':
            continue
        tgt = dotted(head.ast.target)
        body = [n for n in cfg.stmt_nodes() if n.id in cfg.reachable(head, edge_ok=lambda e: e.label != 'exhausted')
                and head.id in cfg.reachable(n) and n is not head]
        cbs = []
        for n in body:
            for c in calls_in(n):
                if isinstance(c.func, ast.Attribute) and dotted(c.func.value) == tgt and c.func.attr.startswith('on_'):
                    cbs.append((n, c))
        if not cbs:
            continue
        it_nodes = [m for m in cfg.nodes if m.kind == 'iter' and m.ast is head.ast.iter]
        if not it_nodes:
            continue
        if len(cbs) != 1 or len(body) != 1:
            out[it_nodes[0].id] = ('irregular', head, cbs[0][1])
        else:
            out[it_nodes[0].id] = (cbs[0][1].func.attr, head, cbs[0][1])
    return out


def traced_facts(prog: Program, interp: Interp, cr: ClientRoles) -> Tuple[Dict[str, Any], List[Problem]]:
    f = cr.traced_wrapper
    problems: List[Problem] = []
    facts: Dict[str, Any] = {}
    res = interp.analyze(f, {EMPTY_ENV}, recv=cr.cls.qualname)
    cfg = res.cfg
    assert cfg is not None
    method_param = cr.traced.params[0].arg
    loops = _callback_loops(cfg, f)
    call_nodes: Dict[int, ast.Call] = {}
    for n in cfg.stmt_nodes():
        for c in calls_in(n):
            if isinstance(c.func, ast.Name) and c.func.id == method_param:
                call_nodes[n.id] = c
    facts['callbacks'] = sorted(v[0] for v in loops.values())
    if len(call_nodes) != 1:
        problems.append(('TRACE-TYPESTATE', f'{len(call_nodes)} calls of the traced method', f.node.lineno,
                         f'{short(f.qualname)} must call the traced method exactly once per attempt, found {len(call_nodes)} call sites'))
        return facts, problems
    kinds = {v[0] for v in loops.values()}
    if 'irregular' in kinds:
        problems.append(('TRACE-TYPESTATE', 'irregular tracer loop', f.node.lineno,
                         'a tracer loop does more than call one callback on every tracer (conditional / several calls)'))
    for need in ('on_request_begin', 'on_request_end', 'on_error'):
        if need not in kinds:
            problems.append(('TRACE-TYPESTATE', f'{need} is never reported', f.node.lineno,
                             f'{short(f.qualname)} never calls tracer.{need}'))
    # direct (non-loop) callback calls are irregular as well
    ev_of: Dict[int, str] = {nid: v[0] for nid, v in loops.items()}
    for nid in call_nodes:
        ev_of[nid] = 'CALL'

    def step(state: Tuple[int, int, int, int], e: Edge):
        b, c, en, er = state
        ev = ev_of.get(e.src.id)
        if ev == 'on_request_begin' and e.label != 'exc':
            b = min(2, b + 1)
        elif ev == 'CALL':
            c = min(2, c + 1)
        elif ev == 'on_request_end' and e.label != 'exc':
            en = min(2, en + 1)
        elif ev == 'on_error' and e.label != 'exc':
            er = min(2, er + 1)
        return [(b, c, en, er)]
    states = run_typestate(cfg, (0, 0, 0, 0), step)
    at_exit = states[cfg.exit.id]
    at_raise = states[cfg.raise_exit.id]
    facts['on_return'] = sorted(at_exit)
    facts['on_raise'] = sorted(at_raise)
    for st in sorted(at_exit):
        if st != (1, 1, 1, 0):
            path = witness(cfg, cfg.exit, st)
            problems.append(('TRACE-TYPESTATE', f'returning path with (begin,call,end,error)={st}', f.node.lineno,
                             f'a returning attempt must report begin once, then end once and no error; found begin={st[0]} '
                             f'calls={st[1]} end={st[2]} error={st[3]}; path: {cfg.describe_path(path)}'))
    for st in sorted(at_raise):
        if st != (1, 1, 0, 1):
            path = witness(cfg, cfg.raise_exit, st)
            problems.append(('TRACE-TYPESTATE' if st[1] else 'TRACE-TYPESTATE', f'raising path with (begin,call,end,error)={st}', f.node.lineno,
                             f'an attempt that raises (any BaseException, e.g. cancellation) must report begin once and then error '
                             f'exactly once and no end; found begin={st[0]} calls={st[1]} end={st[2]} error={st[3]}; '
                             f'path: {cfg.describe_path(path)}'))
    # the completion report lies outside the region whose failures are reported as errors: a tracer whose own on_request_end fails must
    # not make the attempt (which returned) be reported as an error to every tracer as well
    err_heads = [v[1] for v in loops.values() if v[0] == 'on_error']
    protected = False
    for name_, head_, call_ in loops.values():
        if name_ != 'on_request_end':
            continue
        for fr in head_.frames:
            if fr[0] == 'try' and any(eh.handler is hn or eh.handler is not None and eh.handler.handler is hn for hn in fr[2] for eh in err_heads):
                protected = True
                problems.append(('TRACE-TYPESTATE', 'completion reported inside the region guarded by the error report', head_.line,
                                 f'the on_request_end loop at line {head_.line} is inside the try block whose handler reports on_error: if a '
                                 f'tracer\'s own on_request_end raises, the attempt — which had returned — is additionally reported as an '
                                 f'error to every tracer (two completion events for one attempt)'))
    facts['end_inside_guarded_region'] = protected
    if not at_raise:
        problems.append(('TRACE-TYPESTATE', 'exceptions of the traced method do not propagate', f.node.lineno,
                         'an exception raised by the transport no longer reaches the caller'))
    # the exception reaches the caller unchanged
    for h in [n for n in cfg.nodes if n.kind == 'handler']:
        body = [n for n in cfg.nodes if n.handler is h and isinstance(n.ast, ast.Raise)]
        hname = h.ast.name if isinstance(h.ast, ast.ExceptHandler) else None
        for rn in body:
            if not (rn.ast.exc is None or (isinstance(rn.ast.exc, ast.Name) and rn.ast.exc.id == hname and rn.ast.cause is None)):
                problems.append(('TRACE-RERAISE', 'a different exception is raised', rn.line,
                                 f'`{norm(rn.ast)}`: the exception of the attempt must reach the caller unchanged'))
        facts.setdefault('handlers', []).append('|'.join(sorted(c.rsplit('.', 1)[-1] for c in h.caught)))
    # order and context
    ctx_vars: Set[str] = set()
    for nid, (name, head, call) in loops.items():
        it = head.ast.iter
        d = dotted(it)
        if d is None or not d.startswith('self.'):
            problems.append(('TRACE-ORDER', f'{name} loop iterates {norm(it)[:40]}', head.line,
                             f'tracers must be notified in configuration order: `for … in {norm(it)}` is not a direct iteration of the '
                             f'configured tracer sequence'))
        elif d is not None:
            # ... and that attribute holds the configured tracers as given: every constructor of the class hierarchy that stores it stores
            # the argument itself or a list / tuple copy of it — no filter, sort or de-duplication (a tracer dropped at construction
            # time sees neither the begin nor a completion of any attempt)
            attr = d[len('self.'):]
            for c_ in prog.mro(cr.cls):
                if not (isinstance(c_, ClassInfo) and '__init__' in c_.methods):
                    continue
                init_ = c_.methods['__init__']
                ipar = {p.arg for p in init_.params}
                for st in walk_own(init_.node):
                    tg_ = st.targets[0] if isinstance(st, ast.Assign) and len(st.targets) == 1 else getattr(st, 'target', None) if isinstance(st, ast.AnnAssign) else None
                    if tg_ is None or dotted(tg_) != d or getattr(st, 'value', None) is None:
                        continue
                    v_ = st.value
                    while isinstance(v_, ast.Call) and dotted(v_.func) in ('list', 'tuple') and len(v_.args) == 1 and not v_.keywords:
                        v_ = v_.args[0]
                    if not (isinstance(v_, ast.Name) and v_.id in ipar):
                        key_ = ('TRACE-ORDER', f'configured tracers altered when stored: {norm(st.value)[:40]}', st.lineno,
                                f'`{norm(st)[:90]}`: self.{attr} must be the configured sequence as given (same tracers, same order); '
                                f'`{norm(st.value)[:70]}` can drop or reorder tracers — e.g. a tracer object that is falsy when the client is built')
                        if key_ not in problems:
                            problems.append(key_)
        if call.args:
            ctx_vars.add(dotted(call.args[0]) or norm(call.args[0]))
        req_ok = len(call.args) > 1 and dotted(call.args[1]) == f.params[1].arg
        if not req_ok:
            problems.append(('TRACE-CTX', f'{name} does not receive the request', head.line, f'`{norm(call)}` must pass the request'))
    the_call = list(call_nodes.values())[0]
    kw_ctx = [kw.value for kw in the_call.keywords if kw.arg == '_trace_ctx']
    if kw_ctx:
        ctx_vars.add(dotted(kw_ctx[0]) or norm(kw_ctx[0]))
    else:
        problems.append(('TRACE-CTX', 'trace context is not handed to the traced method', the_call.lineno,
                         f'`{norm(the_call)[:80]}` does not pass _trace_ctx'))
    facts['ctx_vars'] = len(ctx_vars)
    if len(ctx_vars) != 1:
        problems.append(('TRACE-CTX', f'{len(ctx_vars)} different trace contexts', f.node.lineno,
                         f'begin, the attempt and the completion event must share one trace context; found {sorted(ctx_vars)}'))
    else:
        cv = next(iter(ctx_vars))
        from ..flow import Flow
        fl = Flow(cfg)
        defs = [n for n in cfg.stmt_nodes() if cv in assigned_names(n)]
        event_heads = [x for x in cfg.nodes if x.id in loops]
        first = event_heads[0]
        # the context is fixed before the first event and never rebound afterwards (one object for begin, attempt, end / error)
        late = [d for d in defs if any(d.id in cfg.reachable(h) for h in event_heads)]
        if not defs or late or not cfg.dominated_by(first, defs):
            problems.append(('TRACE-CTX', 'trace context reassigned', f.node.lineno,
                             f'`{cv}` is assigned {len(defs)} times{" (also after an event was sent)" if late else ""}: the same context object must reach every event'))
        else:
            caller = f.params[2].arg if len(f.params) > 2 else '_trace_ctx'
            alts = fl.alts(first, ast.Name(id=cv, ctx=ast.Load()), boolops=True)
            given = fresh = False
            other = []
            for al in alts:
                st = None
                for c, pol in al.guards:
                    k = classify_cond(prog, f, c)
                    if k.subject == caller and k.kind == 'truthy':
                        st = (not k.negated) == pol
                    elif k.subject == caller and k.kind == 'is-none':
                        st = k.negated == pol
                if dotted(al.expr) == caller and st is True:
                    given = True
                elif isinstance(al.expr, ast.Call) and st is False:
                    fresh = True
                else:
                    other.append(al.text()[:60])
            src_ok = given and fresh and not other
            facts['ctx_source'] = 'caller-supplied or fresh' if src_ok else ' | '.join(al.text()[:50] for al in alts)
            if not src_ok:
                problems.append(('TRACE-CTX', 'caller-supplied trace context ignored', defs[0].line,
                                 f'the trace context is {" | ".join(al.text()[:60] for al in alts)}: a caller-supplied `{caller}` must be used when '
                                 f'given, a fresh context otherwise'))
    # END receives the response of the attempt, ERROR the exception
    resp_vars = set()
    for nid in call_nodes:
        resp_vars |= assigned_names(cfg.nodes[nid])
    for nid, (name, head, call) in loops.items():
        if name == 'on_request_end':
            ok = len(call.args) > 2 and dotted(call.args[2]) in resp_vars
            if not ok:
                problems.append(('TRACE-CTX', 'end event does not carry the response of the attempt', head.line, f'`{norm(call)}`'))
        if name == 'on_error':
            hn = head.handler.ast.name if head.handler is not None and isinstance(head.handler.ast, ast.ExceptHandler) else None
            ok = len(call.args) > 2 and dotted(call.args[2]) == hn
            if not ok:
                problems.append(('TRACE-CTX', 'error event does not carry the raised exception', head.line, f'`{norm(call)}`'))
    # the wrapper returns the attempt's response unchanged
    for n in cfg.stmt_nodes():
        if isinstance(n.ast, ast.Return):
            if n.ast.value is None or dotted(n.ast.value) not in resp_vars:
                problems.append(('TRACE-RERAISE', 'traced wrapper does not return the attempt\'s response', n.line,
                                 f'`{norm(n.ast)}` must return the value of the traced call unchanged'))
    return facts, problems


def trace_ctx_forwarding_problems(prog: Program) -> Tuple[int, List[Tuple[FuncInfo, int, str, str]]]:
    """TRACE-CTX along the call chain: a client-module function that receives the per-call trace context (`_trace_ctx`) hands it to
    every client-module function it calls that takes one too — otherwise the tracers are given a fresh context instead of the
    caller's.  (#forwarding sites examined, problems)"""
    ty = types_of(prog)
    sites = 0
    problems: List[Tuple[FuncInfo, int, str, str]] = []
    for f in prog.iter_funcs():
        if f.module.name != 'pjrpc.client.client' or not isinstance(f.node, (ast.FunctionDef, ast.AsyncFunctionDef)):
            continue
        if '_trace_ctx' not in [p.arg for p in f.params]:
            continue
        sc = FuncScope(f, ty)
        for x in walk_own(f.node):
            if not isinstance(x, ast.Call) or not isinstance(x.func, ast.Attribute):
                continue
            try:
                tg = ty.callees(x, sc)
            except RecursionError:
                continue
            callees = [o for k, o in tg if k == 'func' and isinstance(o, FuncInfo) and o.module.name == 'pjrpc.client.client'
                       and '_trace_ctx' in [p.arg for p in o.params]]
            if not callees:
                continue
            sites += 1
            passed = None
            for kw in x.keywords:
                if kw.arg == '_trace_ctx':
                    passed = kw.value
            if passed is None:
                pos = [p.arg for p in callees[0].node.args.args]
                if callees[0].cls is not None and pos and pos[0] in ('self', 'cls'):
                    pos = pos[1:]
                if '_trace_ctx' in pos and len(x.args) > pos.index('_trace_ctx') and not any(isinstance(a, ast.Starred) for a in x.args):
                    passed = x.args[pos.index('_trace_ctx')]
            if passed is None or dotted(passed) != '_trace_ctx':
                problems.append((f, x.lineno, f'trace context not handed on: {norm(x)[:50]}',
                                 f'`{norm(x)[:80]}` does not pass the `_trace_ctx` it was given to {short(callees[0].qualname)}: the tracers of this '
                                 f'call see a new empty context instead of the one the caller supplied'))
    return sites, problems


def relate_inside_send_problems(prog: Program) -> Tuple[int, List[Tuple[FuncInfo, int, str, str]]]:
    """Every place of the client module that sends a request hands its class's `_relate` to `_send` as the validator, and `_relate`
    is called from nowhere else: the id check is then part of the traced (and retried) attempt, so its failure is reported to the
    tracers as the attempt's error and can be retried.  (#send sites, problems)"""
    sites = 0
    problems: List[Tuple[FuncInfo, int, str, str]] = []
    for f in prog.iter_funcs():
        if f.module.name != 'pjrpc.client.client' or f.cls is None:
            continue
        for x in walk_own(f.node):
            if not isinstance(x, ast.Call) or not isinstance(x.func, ast.Attribute):
                continue
            if x.func.attr == '_send' and (_canon_d(f, x.func.value) or dotted(x.func.value)) in ('self', 'self._client'):
                sites += 1
                v = None
                for k in x.keywords:
                    if k.arg == 'validator':
                        v = k.value
                if v is None or dotted(v) != 'self._relate':
                    problems.append((f, x.lineno, 'request sent without the class\'s _relate as validator',
                                     f'`{norm(x)[:90]}` passes `{norm(v) if v is not None else "<nothing>"}` as the validator: the response is not '
                                     f'related to its request inside the send attempt'))
            elif x.func.attr == '_relate' and dotted(x.func.value) == 'self':
                problems.append((f, x.lineno, '_relate called outside the send attempt',
                                 f'`{norm(x)[:80]}` relates the response after the traced / retried _send has returned: an identity mismatch '
                                 f'then reaches the caller as an exception although the tracers were told the attempt ended normally '
                                 f'(on_request_end), and a listed IdentityError is not retried'))
    return sites, problems


def decor_order_facts(prog: Program, cr: ClientRoles) -> Tuple[Dict[str, Any], List[Problem]]:
    problems: List[Problem] = []
    names = cr.decorators
    facts = {'decorators_outer_to_inner': list(names)}        # by role: 'traced' / 'retried' / other decorator names
    it = names.index('traced')
    ir = names.index('retried')
    if not ir < it:
        problems.append(('DECOR-ORDER', 'tracing wraps retrying', cr.send_impl.node.lineno,
                         f'{short(cr.send_impl.qualname)} is decorated {names}: the tracing decorator must be applied first '
                         f'(innermost) so that every retry attempt is traced'))
    # retried wraps the callable it was given
    w = cr.retried_wrapper
    mparam = cr.retried.params[0].arg
    ok = False
    for x in walk_own(w.node):
        if isinstance(x, ast.Call) and isinstance(x.func, ast.Attribute) and x.func.attr in ('retry', 'retry_async'):
            if x.args and dotted(x.args[0]) == mparam:
                ok = True
    if not ok:
        problems.append(('DECOR-ORDER', 'retry does not wrap the traced callable', w.node.lineno,
                         f'{short(w.qualname)} must hand the decorated (traced) callable `{mparam}` to the retry function'))
    # decoding and id validation happen inside the traced body
    body_attrs = {x.attr for x in ast.walk(cr.send_impl.node) if isinstance(x, ast.Attribute)}
    body_names = {x.id for x in ast.walk(cr.send_impl.node) if isinstance(x, ast.Name)}
    if 'from_json' not in body_attrs or 'validator' not in body_names:
        problems.append(('DECOR-ORDER', 'decode / relate moved out of the traced body', cr.send_impl.node.lineno,
                         'response decoding and id validation must happen inside the traced _send so that their failures are reported to tracers'))
    return facts, problems


# ----------------------------------------------------------------------------------------------
# retried wrapper
# ----------------------------------------------------------------------------------------------

def retried_facts(prog: Program, cr: ClientRoles) -> Tuple[Dict[str, Any], List[Problem]]:
    """The retried wrapper: the strategy is the per-request one iff that is not UNSET (identity), the client-wide one otherwise;
    the retry function is applied iff the selected strategy is truthy.  Decided on value flow (reaching definitions + path
    guards), so conditional expressions and if/else statements are the same thing."""
    from ..flow import Flow
    f = cr.retried_wrapper
    problems: List[Problem] = []
    facts: Dict[str, Any] = {}
    cfg = CFG(f, prog)
    fl = Flow(cfg)
    pnames = [p.arg for p in f.params]

    def is_retry(e: ast.AST) -> bool:
        return isinstance(e, ast.Call) and isinstance(e.func, ast.Attribute) and e.func.attr in ('retry', 'retry_async')
    retry_calls = [(n, c) for n in cfg.stmt_nodes() for c in calls_in(n) if is_retry(c)]
    if not retry_calls:
        problems.append(('STRATEGY-SELECT', 'retry function never applied', f.node.lineno, 'the retried wrapper never applies a retry function'))
        return facts, problems
    if len(retry_calls) != 1:
        raise AnalysisError(f'{f.qualname}: expected one application of the retry function, found {len(retry_calls)}')
    rn, rc = retry_calls[0]
    facts['retry_fn'] = 'retry_async' if rc.func.attr == 'retry_async' else 'retry'
    if (rc.func.attr == 'retry_async') != cr.is_async:
        problems.append(('STRATEGY-SELECT', f'{rc.func.attr} used by the {"async" if cr.is_async else "sync"} client', rn.line,
                         f'the {"asynchronous" if cr.is_async else "synchronous"} client must use '
                         f'{"retry_async" if cr.is_async else "retry"} (blocking sleep / un-awaited coroutine otherwise)'))
    # --- which strategy ------------------------------------------------------------------------------
    if len(rc.args) < 2:
        problems.append(('STRATEGY-SELECT', 'retry applied with another strategy', rn.line, f'`{norm(rc)}` is not given the selected strategy'))
        return facts, problems
    salts = fl.alts(rn, rc.args[1], boolops=True)
    strat_var = dotted(rc.args[1])
    per_req = [a for a in salts if dotted(a.expr) in pnames]
    wide = [a for a in salts if (dotted(a.expr) or '').startswith('self.')]
    other = [a for a in salts if a not in per_req and a not in wide]

    def unset_state(al, subj: str) -> Optional[str]:
        for c, pol in al.guards:
            k = classify_cond(prog, f, c)
            if k.subject != subj:
                continue
            if k.kind == 'is-unset':
                return 'unset' if (not k.negated) == pol else 'set'
            if k.kind == 'truthy':
                return 'truthy' if (not k.negated) == pol else 'falsy'
            if k.kind == 'is-none':
                return 'none' if (not k.negated) == pol else 'not-none'
        return None
    sel_ok = len(per_req) >= 1 and len(wide) >= 1 and not other
    kind = 'is-unset'
    if sel_ok:
        pr = dotted(per_req[0].expr)
        for al in per_req:
            st = unset_state(al, pr)
            if st != 'set':
                sel_ok = False
                kind = {'truthy': 'truthy', 'falsy': 'truthy', 'none': 'is-none', 'not-none': 'is-none'}.get(st or '', 'other')
        for al in wide:
            st = unset_state(al, pr)
            if st != 'unset':
                sel_ok = False
                kind = {'truthy': 'truthy', 'falsy': 'truthy', 'none': 'is-none', 'not-none': 'is-none'}.get(st or '', kind if kind != 'is-unset' else 'other')
        facts['select'] = f'{kind}(per-request) ? client-wide : per-request'
    else:
        facts['select'] = 'strategies: ' + ', '.join(sorted(a.text()[:50] for a in salts))
    if not sel_ok:
        if kind == 'truthy' and per_req and wide:
            facts['select'] = 'truthy(per-request) ? per-request : client-wide'
            problems.append(('STRATEGY-SELECT', 'per-request strategy selected by truthiness', rn.line,
                             f'the strategy is {" | ".join(a.text()[:70] for a in salts)}: UNSET is falsy, but so is an explicit per-request '
                             f'strategy of None (= "do not retry this request"): it falls back to the client-wide strategy and the request is '
                             f'retried; the per-request strategy must replace the client-wide one iff it is not UNSET (identity test)'))
        else:
            problems.append(('STRATEGY-SELECT', 'per-request strategy does not replace the client-wide one', rn.line,
                             f'the strategy handed to the retry function is {" | ".join(a.text()[:70] for a in salts)}: the per-request strategy must be '
                             f'used iff it is not UNSET (identity), the client-wide one otherwise'))
    # --- applied only when a strategy is configured ---------------------------------------------------
    def strat_guard(guards) -> bool:
        for c, pol in guards:
            k = classify_cond(prog, f, c)
            if strat_var is not None and k.subject == strat_var:
                if k.kind == 'truthy' and (not k.negated) == pol:
                    return True
                if k.kind == 'is-none' and k.negated == pol:
                    return True
        return False
    g_ok = strat_guard([(g.src.ast, g.label == 'T') for g in guard_edges(cfg, rn)])
    if not g_ok:
        # the application may sit in one arm of a conditional expression: look at the callable that is finally invoked
        for n in cfg.stmt_nodes():
            for c in calls_in(n):
                if isinstance(c.func, ast.Name):
                    for al in fl.alts(n, c.func):
                        if al.expr is rc and strat_guard(al.guards):
                            g_ok = True
            if isinstance(n.ast, (ast.Assign, ast.Return)) and n.ast.value is not None:
                for al in fl.alts(n, n.ast.value):
                    if al.expr is rc and strat_guard(al.guards):
                        g_ok = True
    facts['disabled_when_falsy'] = g_ok
    if not g_ok:
        problems.append(('STRATEGY-SELECT', 'retrying is not switched off by a None strategy', rn.line,
                         'the retry function must be applied only when a strategy is configured'))
    # ... and whenever one is configured: nothing but the strategy decides whether the call is retried
    all_guards = [(g.src.ast, g.label == 'T') for g in guard_edges(cfg, rn)]
    for n in cfg.stmt_nodes():
        if isinstance(n.ast, (ast.Assign, ast.Return)) and n.ast.value is not None:
            for al in fl.alts(n, n.ast.value):
                if al.expr is rc:
                    all_guards += al.guards
    extra = []
    for c, pol in all_guards:
        if isinstance(c, ast.Constant):
            continue
        k = classify_cond(prog, f, c)
        if strat_var is not None and k.subject == strat_var and k.kind in ('truthy', 'is-none'):
            continue
        if k.kind == 'is-unset' and k.subject in pnames:
            continue
        t = ('' if pol else 'not ') + norm(c)
        if t not in extra:
            extra.append(t)
    facts['extra_retry_conditions'] = extra
    if extra:
        problems.append(('STRATEGY-SELECT', 'retrying additionally depends on ' + '; '.join(extra)[:60], rn.line,
                         f'the retry function is applied only when {extra} besides a configured strategy: a request for which that does not hold '
                         f'(e.g. a notification) is sent once and a listed exception reaches the caller without any retry'))
    return facts, problems


# ----------------------------------------------------------------------------------------------
# retry loops
# ----------------------------------------------------------------------------------------------

def send_return_kinds(prog: Program, crs: List[ClientRoles]) -> FrozenSet[str]:
    """Kinds the (traced) _send can return — the `func` of the retry loop is bound to it."""
    it = Interp(prog, Config(user_raises=lambda f, c, s: set()))
    out: Set[str] = set()
    for cr in crs:
        res = it.analyze(cr.send_impl, {EMPTY_ENV}, recv=cr.cls.qualname)
        out |= res.ret
    return frozenset(out)


from ..util import canon_dotted as _canon_d     # noqa: E402


def retry_loop_facts(prog: Program, outer: FuncInfo, w: FuncInfo, func_ret: FrozenSet[str]) -> Tuple[Dict[str, Any], List[Problem]]:
    problems: List[Problem] = []
    facts: Dict[str, Any] = {}
    func_param = outer.params[0].arg
    strat_param = outer.params[1].arg

    def policy(f: FuncInfo, call: ast.Call, scope: Scope) -> Optional[Set[str]]:
        if isinstance(call.func, ast.Name) and call.func.id == func_param:
            return {'Exception+'}
        return set()

    def returns(f: FuncInfo, call: ast.Call) -> Optional[FrozenSet[str]]:
        if isinstance(call.func, ast.Name) and call.func.id == func_param:
            return func_ret
        return None
    interp = Interp(prog, Config(user_raises=policy, user_returns=returns))
    res = interp.analyze(w, {EMPTY_ENV})
    cfg = res.cfg
    assert cfg is not None
    FUNC: Dict[int, ast.Call] = {}
    NEXT: Dict[int, str] = {}
    SLEEP: Dict[int, ast.Call] = {}
    for n in cfg.stmt_nodes():
        for c in calls_in(n):
            if isinstance(c.func, ast.Name) and c.func.id == func_param:
                FUNC[n.id] = c
            d = dotted(c.func)
            if d == 'next' and c.args:
                tgt_name = None
                if isinstance(n.ast, ast.Assign) and len(n.ast.targets) == 1 and isinstance(n.ast.targets[0], ast.Name) and n.ast.value is c:
                    tgt_name = n.ast.targets[0].id
                else:
                    for frag in node_exprs(n):
                        for x in walk_no_defs(frag):
                            if isinstance(x, ast.NamedExpr) and x.value is c:
                                tgt_name = x.target.id
                if tgt_name is not None:
                    NEXT[n.id] = tgt_name
                    if len(c.args) != 2 or not (isinstance(c.args[1], ast.Constant) and c.args[1].value is None):
                        problems.append(('RETRY-BOUND', 'next(delays) without a None default', n.line,
                                         f'`{norm(c)}`: exhaustion of the backoff must be observable as None (StopIteration would escape)'))
            if d in ('time.sleep', 'asyncio.sleep'):
                SLEEP[n.id] = c
    if len(FUNC) != 1:
        problems.append(('RETRY-BOUND', f'{len(FUNC)} call sites of the retried function', w.node.lineno,
                         f'{short(w.qualname)} must have exactly one attempt call site'))
        return facts, problems
    fnode = cfg.nodes[next(iter(FUNC))]
    delay_vars = set(NEXT.values())
    facts['next_sites'] = len(NEXT)
    facts['sleep_sites'] = len(SLEEP)
    # ---- RETRY-BOUND: every cycle through the attempt passes `delay is not None`:True --------
    go_edges = []
    for c in cfg.nodes:
        if c.kind != 'cond':
            continue
        ckd = classify_cond(prog, w, c.ast)
        if ckd.subject in delay_vars:
            if ckd.kind == 'is-none':
                go_edges += [e for e in cfg.succ[c.id] if e.label in ('T', 'F') and (e.label == 'T') == ckd.negated]
            elif ckd.kind == 'truthy':
                problems.append(('RETRY-BOUND', 'delay tested by truthiness', c.line,
                                 f'`{norm(c.ast)}`: a delay of 0.0 is a valid pause and would be taken for exhaustion; `is not None` required'))
                go_edges += [e for e in cfg.succ[c.id] if e.label in ('T', 'F') and (e.label == 'T') != ckd.negated]
    reach = cfg.reachable(fnode, avoid_edges=go_edges)
    # fnode on a cycle without a go edge?
    cyc = any(e.dst.id == fnode.id or fnode.id in cfg.reachable(e.dst, avoid_edges=go_edges)
              for e in cfg.succ[fnode.id] if e not in go_edges)
    facts['bounded_by_delays'] = not cyc
    if cyc:
        problems.append(('RETRY-BOUND', 'attempt can repeat without consuming a delay', fnode.line,
                         'there is a cycle through the attempt call that does not pass a successful `next(delays)`: the number of '
                         'sends is not bounded by attempts+1'))
    # each go edge is dominated by a NEXT on the same variable, fresh in this iteration
    for e in go_edges:
        var = classify_cond(prog, w, e.src.ast).subject
        nx = [cfg.nodes[nid] for nid, v in NEXT.items() if v == var]
        if not any(e.src is n_ or e.src.id in cfg.reachable(n_, avoid_nodes=[fnode]) for n_ in nx):
            problems.append(('RETRY-BOUND', 'stale delay tested', e.src.line, f'`{norm(e.src.ast)}` is not preceded by a fresh next(delays) in the same attempt'))
    # delays iterator created once, before the loop
    dl = [n for n in cfg.stmt_nodes() if isinstance(n.ast, ast.Assign) and isinstance(n.ast.value, ast.Call) and
          isinstance(n.ast.value.func, ast.Attribute) and n.ast.value.func.attr == 'backoff']
    if len(dl) != 1 or dl[0].id in cfg.reachable(fnode):
        problems.append(('RETRY-BOUND', 'backoff iterator is (re)created inside the loop', w.node.lineno,
                         'the delay iterator must be created once per call, before the first attempt; re-creating it resets the bound'))
    # ---- RETRY-SLEEP typestate -----------------------------------------------------------------
    def step(state: Tuple[int, int], e: Edge):
        seen, sl = state
        nid = e.src.id
        if nid in FUNC:
            if seen and sl != 1:
                return [(3, sl)]            # error marker: second attempt without exactly one pause
            if not seen and sl != 0:
                return [(4, sl)]            # pause before the first attempt
            return [(1, 0)]
        if nid in SLEEP and e.label != 'exc':
            return [(seen, min(2, sl + 1))]
        return [(seen, sl)]
    states = run_typestate(cfg, (0, 0), step)
    bad_states = []
    for n in cfg.nodes:
        for st in states[n.id]:
            if st[0] in (3, 4):
                bad_states.append((n, st))
    for n, st in bad_states[:1]:
        path = witness(cfg, n, st)
        what = 'a re-send happens without exactly one pause before it' if st[0] == 3 else 'a pause happens before the first send'
        problems.append(('RETRY-SLEEP', what, n.line, f'{what} (pauses since the previous send: {st[1]}); path: {cfg.describe_path(path)}'))
    for ex, name in ((cfg.exit, 'returning'), (cfg.raise_exit, 'raising')):
        for st in states[ex.id]:
            if st[0] == 1 and st[1] != 0:
                path = witness(cfg, ex, st)
                problems.append(('RETRY-SLEEP', f'pause after the last send on a {name} path', w.node.lineno,
                                 f'the loop sleeps after the final attempt and then {"returns" if name == "returning" else "raises"}; '
                                 f'path: {cfg.describe_path(path)}'))
    facts['sleep_states_on_return'] = sorted(states[cfg.exit.id])
    facts['sleep_states_on_raise'] = sorted(states[cfg.raise_exit.id])
    for nid, c in SLEEP.items():
        a = dotted(c.args[0]) if c.args else None
        if a not in delay_vars:
            problems.append(('RETRY-SLEEP', 'pause is not the backoff delay', cfg.nodes[nid].line,
                             f'`{norm(c)}` must sleep for the value obtained from next(delays)'))
        if w.is_async and dotted(c.func) == 'time.sleep':
            problems.append(('RETRY-SLEEP', 'blocking sleep in the async loop', cfg.nodes[nid].line, f'`{norm(c)}` blocks the event loop'))
    # ---- RETRY-COND ------------------------------------------------------------------------
    code_next = [cfg.nodes[nid] for nid in NEXT if cfg.nodes[nid].handler is None]
    exc_next = [cfg.nodes[nid] for nid in NEXT if cfg.nodes[nid].handler is not None]
    conds = set()
    for n in code_next:
        for g in guard_edges(cfg, n):
            if isinstance(g.src.ast, ast.Constant):
                continue            # `while True:` — not a condition
            ckd = classify_cond(prog, w, g.src.ast)
            txt = norm(g.src.ast).replace(strat_param, '<strategy>')
            pos = (g.label == 'T')
            if ckd.kind == 'truthy' and ckd.subject and ckd.subject.endswith('.is_error') and pos != ckd.negated:
                conds.add('is_error')
            elif ckd.kind == 'truthy' and ckd.subject == f'{strat_param}.codes' and pos != ckd.negated:
                conds.add('codes-set')
            elif isinstance(g.src.ast, ast.Compare) and isinstance(g.src.ast.ops[0], (ast.In, ast.NotIn)) and \
                    pos == isinstance(g.src.ast.ops[0], ast.In) and \
                    (_canon_d(w, g.src.ast.comparators[0]) or dotted(g.src.ast.comparators[0])) == f'{strat_param}.codes' and \
                    norm(g.src.ast.left).endswith('.code'):
                conds.add('code-in-codes')
            elif ckd.kind == 'is-none' and pos == ckd.negated:
                conds.add('response-not-none')
            else:
                conds.add(f'other:{txt}:{g.label}')
    facts['code_retry_condition'] = sorted(conds - {'response-not-none'})
    want = {'is_error', 'codes-set', 'code-in-codes'}
    if code_next and (conds - {'response-not-none'}) != want:
        problems.append(('RETRY-COND', f'code retry condition {sorted(conds)}', code_next[0].line,
                         f'a response is re-sent iff it is an error whose code is in the strategy\'s codes; found guards {sorted(conds)}'))
    if not code_next:
        problems.append(('RETRY-COND', 'listed error codes are never retried', w.node.lineno, 'no next(delays) on the response path'))
    handlers = [h for h in cfg.nodes if h.kind == 'handler']
    facts['exception_handlers'] = ['|'.join(c.rsplit('.', 1)[-1] for c in h.caught) + ':' +
                                   (norm(h.ast.type).replace(strat_param, '<strategy>') if isinstance(h.ast, ast.ExceptHandler) and h.ast.type is not None else '')
                                   for h in handlers]
    ok_h = len(handlers) == 1 and isinstance(handlers[0].ast, ast.ExceptHandler) and handlers[0].ast.type is not None and \
        f'{strat_param}.exceptions' in norm(handlers[0].ast.type) and handlers[0].caught == ('<dynamic>',)
    if not ok_h:
        problems.append(('RETRY-COND', 'exceptions retried are not exactly the listed ones', w.node.lineno,
                         f'the except clause must catch tuple(<strategy>.exceptions …); found {facts["exception_handlers"]}'))
    if not exc_next:
        problems.append(('RETRY-COND', 'listed exceptions are never retried', w.node.lineno, 'no next(delays) in the except clause'))
    # ---- RETRY-OUTCOME ---------------------------------------------------------------------
    resp_vars = assigned_names(fnode)
    for n in cfg.stmt_nodes():
        if isinstance(n.ast, ast.Return):
            v = n.ast.value
            ok = v is not None and dotted(v) in resp_vars
            if ok:
                defs = [m for m in cfg.stmt_nodes() if dotted(v) in assigned_names(m)]
                ok = all(m.id in FUNC for m in defs)
            if not ok:
                problems.append(('RETRY-OUTCOME', 'returned value is not the last attempt\'s response', n.line,
                                 f'`{norm(n.ast)}` must return the response of the most recent attempt unchanged'))
    for h in handlers:
        hname = h.ast.name if isinstance(h.ast, ast.ExceptHandler) else None
        rs = [n for n in cfg.nodes if n.handler is h and isinstance(n.ast, ast.Raise)]
        if not rs:
            problems.append(('RETRY-OUTCOME', 'exhausted retries swallow the exception', h.line,
                             'when no delay is left the caught exception must be re-raised'))
        for rn in rs:
            if not (rn.ast.exc is None or (isinstance(rn.ast.exc, ast.Name) and rn.ast.exc.id == hname)):
                problems.append(('RETRY-OUTCOME', 'a different exception is raised after the last attempt', rn.line, f'`{norm(rn.ast)}`'))
    # ---- NULL-DEREF -----------------------------------------------------------------------
    nd = {k: v for k, v in interp.none_derefs.items() if k[0] == w.qualname}
    facts['func_may_return_none'] = 'N' in func_ret
    first: Dict[str, Tuple[str, Any]] = {}
    for (fq, expr), wit in nd.items():
        basev = expr.split('.')[0]
        if basev not in first or wit.line < first[basev][1].line:
            first[basev] = (expr, wit)
    for basev, (expr, wit) in sorted(first.items()):
        problems.append(('NULL-DEREF', f'{basev} dereferenced although it may be None', wit.line,
                         f'{wit.text}: the retried function is the traced _send, which returns None for notifications '
                         f'(so a notification sent with a retry strategy raises AttributeError)'))
    return facts, problems



def _iter_length(e: ast.expr) -> Optional[str]:
    """'A' = exactly self.attempts elements whatever attempts is; another string = a different, named count; None = not read."""
    def is_attempts(x: ast.expr) -> bool:
        return dotted(x) == 'self.attempts'

    def last(d: Optional[str]) -> str:
        return (d or '').rsplit('.', 1)[-1]
    if not isinstance(e, ast.Call):
        return None
    fn_ = last(dotted(e.func))
    a = e.args
    kw = {k.arg: k.value for k in e.keywords if k.arg}
    if fn_ == 'range':
        if len(a) == 1:
            return 'A' if is_attempts(a[0]) else f'range({norm(a[0])})'
        if len(a) == 2 and isinstance(a[0], ast.Constant) and isinstance(a[0].value, int):
            k0 = a[0].value
            if k0 == 0 and is_attempts(a[1]):
                return 'A'
            if isinstance(a[1], ast.BinOp) and isinstance(a[1].op, ast.Add) and is_attempts(a[1].left) and isinstance(a[1].right, ast.Constant) and a[1].right.value == k0:
                return 'A'
            return f'range({norm(a[0])}, {norm(a[1])})'
        return None
    if fn_ == 'repeat':
        n_ = a[1] if len(a) > 1 else kw.get('times')
        if n_ is None:
            return 'inf'
        return 'A' if is_attempts(n_) else f'max(0, {norm(n_)})'
    if fn_ in ('count', 'cycle'):
        return 'inf'
    if fn_ == 'islice' and len(a) == 2:
        inner = _iter_length(a[0])
        if is_attempts(a[1]) and inner in ('inf', 'A', None):
            return 'A' if inner in ('inf', 'A') else None
        return f'islice(…, {norm(a[1])})'
    if fn_ in ('enumerate', 'iter', 'reversed', 'list', 'tuple') and a:
        return _iter_length(a[0])
    if fn_ in ('map', 'starmap') and len(a) >= 2:
        ls = [_iter_length(x) for x in a[1:]]
        fin = [l_ for l_ in ls if l_ != 'inf']
        if any(l_ is None for l_ in ls):
            return None
        return fin[0] if fin and all(l_ == fin[0] for l_ in fin) else ('inf' if not fin else None)
    if fn_ == 'zip' and a:
        ls = [_iter_length(x) for x in a]
        if any(l_ is None for l_ in ls):
            return None
        fin = [l_ for l_ in ls if l_ != 'inf']
        return fin[0] if fin and all(l_ == fin[0] for l_ in fin) else ('inf' if not fin else None)
    if fn_ == 'accumulate' and a:
        inner = _iter_length(a[0])
        if inner is None:
            return None
        if 'initial' in kw and not (isinstance(kw['initial'], ast.Constant) and kw['initial'].value is None):
            return f'{inner} + 1' if inner != 'inf' else 'inf'
        return inner
    return None


def backoff_facts(prog: Program) -> Tuple[Dict[str, Any], List[Problem]]:
    problems: List[Problem] = []
    facts: Dict[str, Any] = {}
    base = prog.cls(RETRY_MOD + '.Backoff')
    subs = prog.subclasses(base, strict=True)
    if len(subs) < 3:
        raise AnalysisError(f'expected 3 backoff families, found {len(subs)}')
    for ci in subs:
        # the family's own __call__, or an inherited template method (`return self._delays()`) resolved against the family
        call = prog.find_method(ci, '__call__')
        if call is not None and call.cls is base and not any(isinstance(x, ast.Return) and isinstance(x.value, ast.Call) for x in walk_own(call.node)):
            call = None         # the abstract placeholder of the base class
        if call is None:
            problems.append(('BACKOFF-BOUND', f'{ci.name} has no __call__', ci.node.lineno, f'{ci.name} does not produce delays'))
            continue
        gens = [g for g in call.nested.values()]
        if not gens:
            # the generator may be a method of its own: `return self._iter_delays()`
            for x in walk_own(call.node):
                if isinstance(x, ast.Return) and isinstance(x.value, ast.Call) and isinstance(x.value.func, ast.Attribute) and \
                        dotted(x.value.func.value) == 'self' and not x.value.args and not x.value.keywords:
                    m_ = prog.find_method(ci, x.value.func.attr)
                    if m_ is not None and any(isinstance(y, (ast.Yield, ast.YieldFrom)) for y in walk_own(m_.node)):
                        gens.append(m_)
        gens = gens or [call]
        g = gens[0]
        from ..effects import memoised_one_shot
        for fn_ in {call.qualname: call, g.qualname: g}.values():
            shared = memoised_one_shot(prog, fn_)
            if shared:
                problems.append(('BACKOFF-BOUND', f'{ci.name}: delay iterator shared between requests', fn_.node.lineno,
                                 shared + ': the delays of one request are consumed by another, so pauses are not the successive delays of the '
                                 'backoff and a request can run out of attempts it never used'))
        cfg = CFG(g, prog)
        yields = [n for n in cfg.stmt_nodes() if any(isinstance(x, (ast.Yield, ast.YieldFrom)) for frag in node_exprs(n) for x in walk_no_defs(frag))]
        heads = [n for n in cfg.nodes if n.kind == 'next']
        whiles = [n for n in cfg.nodes if n.extra.get('loop_head') is not None]
        rec = {'yields': len(yields), 'loops': len(heads), 'while': len(whiles)}
        bound_ok = False
        if len(heads) == 1 and not whiles:
            it = norm(heads[0].ast.iter)
            bound_ok = 'self.attempts' in it and any(k in it for k in ('range(', 'repeat(', 'islice('))
            rec['bound'] = it
            # how many elements the iterable has, where that can be read off: exactly `attempts` for every attempts >= 0 ('A'), or
            # something else (attempts - 1 clamped at 0, + 1 for accumulate(initial=…), …)
            ln = _iter_length(heads[0].ast.iter)
            rec['delays'] = ln or 'not read'
            if ln is not None and ln != 'A':
                bound_ok = False
                rec['bound'] = f'{it}  ({ln} elements)'
        # exactly one delay per iteration, on every path through the loop body (`if cap: yield min(..) else: yield v` is one per path)
        ok = bound_ok and bool(yields)
        if ok:
            h_ = heads[0]
            in_loop = cfg.reachable(h_, edge_ok=lambda e: e.label != 'exhausted')
            if not all(y.id in in_loop and h_.id in cfg.reachable(y) for y in yields):
                ok = False
            # at least one: the head cannot be reached again from the start of the body without passing a yield
            starts = [e.dst for e in cfg.succ[h_.id] if e.label != 'exhausted' and e.label != 'exc']
            if any(h_.id in (cfg.reachable(st_, avoid_nodes=yields) | {st_.id}) and st_ not in yields for st_ in starts):
                ok = False
            # at most one: after a yield no other yield is met before the next iteration starts
            yid = {y.id for y in yields}
            if any((cfg.reachable(y, avoid_nodes=[h_]) - {y.id}) & yid or y.id in {e.dst.id for e in cfg.succ[y.id] if e.dst is y} for y in yields):
                ok = False
        rec['yields_per_iteration'] = 1 if ok else '?'
        if any(isinstance(x, ast.YieldFrom) for n in yields for frag in node_exprs(n) for x in walk_no_defs(frag)):
            ok = False
        if not ok:
            problems.append(('BACKOFF-BOUND', f'{ci.name}: delays not bounded by attempts', call.node.lineno,
                             f'{ci.name}.__call__ must yield exactly one delay per iteration of one loop bounded by self.attempts; found {rec}'))
        # shape: value = <base expr> + self.jitter(); capped by max_value iff it is not None
        if yields:
            ys_ = [x for yn in yields for frag in node_exprs(yn) for x in walk_no_defs(frag) if isinstance(x, ast.Yield)]
            if not ys_ or len(yields) != 1:
                facts[ci.name] = rec
                continue            # BACKOFF-BOUND has reported the yield structure
            y = ys_[0]
            val = y.value
            shape = _delay_shape(val, g, cfg, yields[0], prog)
            rec['shape'] = shape
            has_max = any('max_value' in c.attr_ann or 'max_value' in c.attrs for c in prog.mro(ci) if isinstance(c, ClassInfo))
            want = 'cap(base + jitter)' if has_max else 'base + jitter'
            if shape != want:
                problems.append(('BACKOFF-SHAPE', f'{ci.name}: delay is {shape}', yields[0].line,
                                 f'{ci.name} must yield {want} (jitter added before the cap, cap applied iff max_value is not None); '
                                 f'found `{norm(val)[:90]}` = {shape}'))
        facts[ci.name] = rec
    return facts, problems


def _delay_shape(val: Optional[ast.expr], g: FuncInfo, cfg: Optional[CFG] = None, ynode: Optional[Node] = None,
                 prog: Optional[Program] = None) -> str:
    """Shape of the yielded delay, decided on value flow: every value the yield can produce is either
    min(max_value, X) on the paths where `max_value is not None`, or X itself where it is None, X = <base> + jitter()."""
    if val is None:
        return 'nothing'
    from ..flow import Flow
    assert cfg is not None and ynode is not None and prog is not None
    fl = Flow(cfg)

    def jitter_leaf(e: ast.expr) -> bool:
        return isinstance(e, ast.BinOp) and isinstance(e.op, ast.Add) and any(
            isinstance(s_, ast.Call) and dotted(s_.func) == 'self.jitter' for s_ in (e.left, e.right))

    def max_state(guards) -> Optional[str]:
        st = None
        for c, pol in guards:
            k = classify_cond(prog, g, c)
            if k.subject == 'self.max_value':
                if k.kind == 'is-none':
                    st = 'set' if k.negated == pol else 'none'
                else:
                    return 'non-identity'
        return st
    alts = fl.alts(ynode, val)
    capped = []
    plain = []
    for al in alts:
        e = al.expr
        if isinstance(e, ast.Call) and dotted(e.func) == 'min':
            capped.append(al)
        else:
            plain.append(al)
    if not capped:
        if plain and all(jitter_leaf(al.expr) for al in plain):
            return 'base + jitter'
        return 'no jitter'
    inner_texts = set()
    for al in capped:
        e = al.expr
        st = max_state(al.guards)
        if st == 'non-identity':
            return 'cap guarded by a non-identity test'
        if st is None:
            return 'unconditional cap'
        if st != 'set' or len(e.args) != 2:
            return 'unrecognised cap'
        from ..util import canon_dotted as _cdm
        args = [a_ for a_ in e.args if (_cdm(g, a_) or dotted(a_)) != 'self.max_value']
        if len(args) != 1:
            return 'unrecognised cap'
        inner = [x for x in fl.alts(al.node or ynode, args[0]) if x.expr is not e]
        if not inner or not all(jitter_leaf(x.expr) for x in inner):
            return 'cap(base) without jitter inside the cap'
        inner_texts |= {norm(x.expr) for x in inner}
    capped_nodes = [al.node for al in capped if al.node is not None]
    for al in plain:
        st = max_state(al.guards)
        if st == 'non-identity':
            return 'cap guarded by a non-identity test'
        if st is None and al.node is not None and capped_nodes:
            # `value = X; if max is not None: value = min(max, value); yield value`: the uncapped value reaches the yield only past the
            # test's false edge — it must not get there on a path where the maximum is set
            set_edges, none_edges = [], []
            for c_ in cfg.nodes:
                if c_.kind == 'cond':
                    k_ = classify_cond(prog, g, c_.ast)
                    if k_.subject == 'self.max_value' and k_.kind == 'is-none':
                        for ed in cfg.succ[c_.id]:
                            if ed.label in ('T', 'F'):
                                (none_edges if (ed.label == 'T') != k_.negated else set_edges).append(ed)
            if set_edges:
                when_set = ynode.id in cfg.reachable(al.node, avoid_nodes=capped_nodes, avoid_edges=none_edges)
                when_none = ynode.id in cfg.reachable(al.node, avoid_nodes=capped_nodes, avoid_edges=set_edges)
                if when_none and not when_set:
                    st = 'none'
        if st != 'none' or not jitter_leaf(al.expr) or norm(al.expr) not in inner_texts:
            return 'unrecognised cap'
    if not plain:
        return 'unrecognised cap'
    return 'cap(base + jitter)'
