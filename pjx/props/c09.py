"""C09 — retries are bounded, follow the configured backoff, and return the last outcome."""
from __future__ import annotations

from ..model import Program, norm as _norm
from ..report import Check
from ..util import short
from .cfacts import backoff_facts, clients, retried_facts, retry_loop_facts, retry_loops, send_return_kinds


def run(ck: Check, prog: Program) -> None:
    from .cfacts import client_program
    prog = client_program(prog)
    crs = clients(prog)
    loops = retry_loops(prog)
    ck.explain('Cycle/dominance and typestate rules over the CFG (with exception edges) of retry and retry_async: every cycle '
               'through the attempt call passes a fresh next(delays) tested `is not None`; exactly one sleep(delay) between two '
               'consecutive attempts and none before the first or after the last; the re-send condition is is_error ∧ codes ∧ '
               'code∈codes or an except over the strategy\'s exception tuple; the returned value is the latest attempt\'s '
               'response; the attempt function is bound to the traced _send (whose None result for notifications is tracked '
               'into the loop by the abstract interpreter); backoff generators yield once per iteration of a loop bounded by '
               'attempts with jitter inside the cap; the retried wrapper selects the per-request strategy iff not UNSET.')
    ck.assume('the backoff object passed in a strategy is one of the library\'s backoff families (or obeys the same contract)')
    ck.not_decided.append('numeric delay sequences (periodic / exponential / Fibonacci values) — runtime values')
    ret = send_return_kinds(prog, crs)
    for outer, w in loops:
        ck.functions.add(w.qualname)
        facts, problems = retry_loop_facts(prog, outer, w, ret)
        for rule in ('RETRY-BOUND', 'RETRY-SLEEP', 'RETRY-COND', 'RETRY-OUTCOME', 'NULL-DEREF'):
            bad = [p for p in problems if p[0] == rule]
            ck.ob(rule, f'{outer.name}: {rule}', not bad, sample={'facts': facts} if rule == 'RETRY-BOUND' else None)
        for rule, construct, line, msg in problems:
            ck.finding(rule, w.qualname, construct, w.module.rel, line, msg)
    # "a listed error code": the code the re-send condition looks at is the one the server sent — the error object keeps the code
    # it was built with whatever its value (0 is a code like any other; no truthiness on the protocol scalar)
    from ..absint import Interp as _Interp
    from ..model import norm as _norm
    from .common import EXC as _EXC
    from .sentinel import sent_truth
    ector = prog.func(_EXC + '.JsonRpcError.__init__')
    ck.functions.add(ector.qualname)
    flagged, n_c = sent_truth(prog, _Interp(prog), ector, scalar_rule=True)
    ck.ob('RETRY-COND', 'the error code compared with the listed codes is the code received (JsonRpcError.__init__ keeps a falsy code)', not flagged,
          sample={'conditions': n_c})
    for s_, why, kinds in flagged:
        ck.finding('RETRY-COND', ector.qualname, f'truthiness of {_norm(s_.expr)} in {s_.context}', ector.module.rel, s_.node.line,
                   f'`{_norm(s_.node.ast)[:100]}`: {why}. An error answered with the (legal) code 0 gets the class default instead — None for the base '
                   f'class — so `code in retry_strategy.codes` fails for a listed code 0 and the request is not re-sent')
    facts, problems = backoff_facts(prog)
    for rule in ('BACKOFF-BOUND', 'BACKOFF-SHAPE'):
        bad = [p for p in problems if p[0] == rule]
        ck.ob(rule, rule, not bad, sample={'facts': facts})
    for rule, construct, line, msg in problems:
        ck.finding(rule, 'pjrpc.client.retry.<backoff families>', construct, 'pjrpc/client/retry.py', line, msg)
    for cr in crs:
        ck.functions.add(cr.retried_wrapper.qualname)
        facts, problems = retried_facts(prog, cr)
        ck.ob('STRATEGY-SELECT', f'{cr.cls.name}: STRATEGY-SELECT', not problems, sample={'facts': facts})
        for rule, construct, line, msg in problems:
            ck.finding(rule, cr.retried_wrapper.qualname, construct, cr.cls.module.rel, line, msg)
    # the per-request strategy travels as `_retry_strategy`: wherever a client function names it as a parameter its default is UNSET
    # ("not given: use the client-wide strategy") — None means "retries explicitly disabled", so a None default on the way silently
    # switches the client-wide strategy off for that way of sending
    import ast as _ast
    from ..util import is_unset_expr as _isu
    n_par = 0
    for f_ in prog.iter_funcs():
        if f_.module.name != 'pjrpc.client.client' or not isinstance(f_.node, (_ast.FunctionDef, _ast.AsyncFunctionDef)):
            continue
        for p_ in f_.params:
            if p_.arg.lstrip('_') == 'retry_strategy' and p_.arg.startswith('_'):
                n_par += 1
                d_ = f_.param_default(p_.arg)
                ok_ = d_ is not None and _isu(prog, f_, d_)
                ck.ob('STRATEGY-SELECT', f'{short(f_.qualname)}: `{p_.arg}` defaults to UNSET', ok_)
                if not ok_:
                    ck.finding('STRATEGY-SELECT', f_.qualname, f'`{p_.arg}` defaults to {_norm(d_) if d_ is not None else "nothing"}', f_.module.rel, f_.node.lineno,
                               f'{short(f_.qualname)} takes the per-request strategy with the default `{_norm(d_) if d_ is not None else "<required>"}` and hands it on: the '
                               f'retrying wrapper reads anything but UNSET as an explicit per-request choice, so requests sent this way (batches) are '
                               f'never re-sent although the client was built with a retry strategy')
    ck.require('STRATEGY-SELECT', 'per-request strategy parameters in the client module', n_par, 4)
    ck.require('RETRY-BOUND', 'retry loops', len(loops), 2)


MUTANTS = [
    dict(name='memoised-backoff-iterator', file='pjrpc/client/retry.py', nth=2,
         find='    def __call__(self) -> Iterator[float]:\n', replace='    @ft.lru_cache(maxsize=None)\n    def __call__(self) -> Iterator[float]:\n',
         also=[dict(file='pjrpc/client/retry.py', find='import itertools as it\n', replace='import functools as ft\nimport itertools as it\n')],
         expect='BACKOFF-BOUND'),
    dict(name='delay-truthiness', file='pjrpc/client/retry.py', nth=0, find='                    if delay is not None:', replace='                    if delay:',
         expect='RETRY-BOUND'),
    dict(name='sleep-after-final-attempt', file='pjrpc/client/retry.py', nth=0,
         find='                delay = next(delays, None)\n                if delay is not None:\n                    logger.debug("retrying request: attempt=%d, exception=%r", attempt, e)\n                    time.sleep(delay)\n                else:\n                    raise e',
         replace='                delay = next(delays, None)\n                time.sleep(delay or 0)\n                if delay is None:\n                    raise e', expect='RETRY-SLEEP'),
    dict(name='catch-all-exceptions', file='pjrpc/client/retry.py', nth=1, find='            except tuple(retry_strategy.exceptions or {}) as e:',
         replace='            except Exception as e:', expect='RETRY-COND'),
    dict(name='unbounded-backoff', file='pjrpc/client/retry.py', find='            for _ in range(self.attempts):\n                yield self.interval + self.jitter()',
         replace='            while True:\n                yield self.interval + self.jitter()', expect='BACKOFF-BOUND'),
    dict(name='jitter-outside-cap', file='pjrpc/client/retry.py',
         find='                value = base * (self.factor ** n) + self.jitter()\n                yield min(self.max_value, value) if self.max_value is not None else value',
         replace='                value = base * (self.factor ** n)\n                yield (min(self.max_value, value) if self.max_value is not None else value) + self.jitter()',
         expect='BACKOFF-SHAPE'),
    dict(name='ignore-codes-set', file='pjrpc/client/retry.py', nth=0,
         find='response is not None and response.is_error\n                    and retry_strategy.codes and response.get_error().code in retry_strategy.codes',
         replace='response is not None and response.is_error', expect='RETRY-COND'),
    dict(name='recreate-delays-each-attempt', file='pjrpc/client/retry.py', nth=0,
         find='        delays = retry_strategy.backoff()\n\n        for attempt in it.count(start=1):\n            try:\n',
         replace='        for attempt in it.count(start=1):\n            delays = retry_strategy.backoff()\n            try:\n', expect='RETRY-BOUND'),
    dict(name='per-request-strategy-truthiness', file='pjrpc/client/client.py', nth=0,
         find='retry_strategy = self._retry_strategy if isinstance(_retry_strategy, UnsetType) else _retry_strategy',
         replace='retry_strategy = _retry_strategy or self._retry_strategy', expect='STRATEGY-SELECT', accept_analysis_error=True),
    dict(name='async-client-uses-sync-retry', file='pjrpc/client/client.py', find='wrapped_method = retry.retry_async(method, retry_strategy)',
         replace='wrapped_method = retry.retry(method, retry_strategy)', expect='STRATEGY-SELECT'),
    dict(name='no-sleep-on-code-retry', file='pjrpc/client/retry.py', nth=0,
         find='                        time.sleep(delay)\n                        continue', replace='                        continue', expect='RETRY-SLEEP'),
    dict(name='return-first-response', file='pjrpc/client/retry.py', nth=0,
         find='                return response\n', replace='                return first\n',
         also=[dict(file='pjrpc/client/retry.py', nth=0, find='                response = func(*args, **kwargs)\n', replace='                response = func(*args, **kwargs)\n                first = locals().get("first") or response\n')],
         expect='RETRY-OUTCOME'),
    dict(name='reintroduce-D9-null-deref', file='pjrpc/client/retry.py', nth=1,
         find='response is not None and response.is_error', replace='response.is_error', expect='NULL-DEREF'),
]
