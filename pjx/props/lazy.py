"""LAZY-MEMBERSHIP: a membership test against a one-shot iterator.

`x in it` on a generator / map / filter / zip object consumes the iterator up to the match (or completely): the second test on
the same object sees only the rest.  A set of excluded parameter names held as such an object therefore excludes at most the
first parameter it is asked about.  The right operand of every `in` / `not in` of the given functions is followed through locals
(flow.py) and — when it is a parameter — through the arguments of the package's call sites (two levels); a leaf that constructs a
lazy iterator is reported when the test can run more than once for it (inside a loop / comprehension, or more than one test).
"""
from __future__ import annotations

import ast
from typing import Dict, Iterable, List, Optional, Set, Tuple

from ..cfg import CFG
from ..effects import LAZY_ITER_CALLS
from ..flow import Flow
from ..model import FuncInfo, Program, dotted, norm
from ..types import FuncScope, types_of
from ..util import stmt_node_of


def _is_lazy(e: ast.expr) -> bool:
    return isinstance(e, ast.GeneratorExp) or isinstance(e, ast.Call) and dotted(e.func) in LAZY_ITER_CALLS


def _callers(prog: Program, scope_funcs: Iterable[FuncInfo]) -> Dict[str, List[Tuple[FuncInfo, ast.Call]]]:
    ty = types_of(prog)
    out: Dict[str, List[Tuple[FuncInfo, ast.Call]]] = {}
    for g in scope_funcs:
        if not isinstance(g.node, (ast.FunctionDef, ast.AsyncFunctionDef)):
            continue
        sc = FuncScope(g, ty)
        for x in ast.walk(g.node):
            if isinstance(x, ast.Call):
                try:
                    tg = ty.callees(x, sc)
                except RecursionError:
                    continue
                for k, o in tg:
                    if k == 'func' and isinstance(o, FuncInfo):
                        out.setdefault(o.qualname, []).append((g, x))
    return out


def _arg_for(call: ast.Call, callee: FuncInfo, pname: str) -> Optional[ast.expr]:
    a = callee.node.args
    pos = [p.arg for p in list(a.posonlyargs) + list(a.args)]
    if callee.cls is not None and callee.kind in ('method', 'classmethod') and pos:
        pos = pos[1:]
    for k in call.keywords:
        if k.arg == pname:
            return k.value
    if pname in pos:
        i = pos.index(pname)
        if i < len(call.args) and not any(isinstance(x, ast.Starred) for x in call.args[:i + 1]):
            return call.args[i]
    return None


def lazy_membership_problems(prog: Program, funcs: List[FuncInfo], scope_funcs: Optional[List[FuncInfo]] = None
                             ) -> Tuple[int, List[Tuple[FuncInfo, int, str, str]]]:
    """(#membership tests examined, [(function, line, construct, message)])"""
    scope_funcs = scope_funcs if scope_funcs is not None else list(prog.iter_funcs())
    callers = _callers(prog, scope_funcs)
    flows: Dict[str, Tuple[CFG, Flow]] = {}

    def flow_of_func(f: FuncInfo) -> Tuple[CFG, Flow]:
        if f.qualname not in flows:
            cfg = CFG(f, prog)
            flows[f.qualname] = (cfg, Flow(cfg))
        return flows[f.qualname]

    def leaves(f: FuncInfo, n, e: ast.expr, depth: int, seen: Set[Tuple[str, str]]) -> List[Tuple[FuncInfo, ast.expr]]:
        cfg, fl = flow_of_func(f)
        out: List[Tuple[FuncInfo, ast.expr]] = []
        for al in fl.alts(n, e):
            v = al.expr
            params = {p.arg for p in f.params}
            if isinstance(v, ast.Name) and v.id in params and not fl.defs_at(al.node or n, v.id) and depth < 2:
                if (f.qualname, v.id) in seen:
                    continue
                for g, call in callers.get(f.qualname, []):
                    arg = _arg_for(call, f, v.id)
                    if arg is None or not isinstance(g.node, (ast.FunctionDef, ast.AsyncFunctionDef)):
                        continue
                    gcfg, _ = flow_of_func(g)
                    gn = stmt_node_of(gcfg, call)
                    if gn is None:
                        continue
                    out += leaves(g, gn, arg, depth + 1, seen | {(f.qualname, v.id)})
            else:
                out.append((f, v))
        return out
    n_tests = 0
    problems: List[Tuple[FuncInfo, int, str, str]] = []
    for f in funcs:
        if not isinstance(f.node, (ast.FunctionDef, ast.AsyncFunctionDef)):
            continue
        cfg, fl = flow_of_func(f)
        tests: List[Tuple[ast.Compare, ast.expr, bool]] = []
        parents: Dict[int, ast.AST] = {}
        for x in ast.walk(f.node):
            for ch in ast.iter_child_nodes(x):
                parents[id(ch)] = x
        for x in ast.walk(f.node):
            if isinstance(x, ast.Compare) and len(x.ops) == 1 and isinstance(x.ops[0], (ast.In, ast.NotIn)):
                rep = False
                cur: Optional[ast.AST] = x
                while cur is not None and cur is not f.node:
                    cur = parents.get(id(cur))
                    if isinstance(cur, (ast.For, ast.AsyncFor, ast.While, ast.ListComp, ast.SetComp, ast.DictComp, ast.GeneratorExp)):
                        rep = True
                tests.append((x, x.comparators[0], rep))
        by_operand: Dict[str, int] = {}
        for x, e, rep in tests:
            by_operand[norm(e)] = by_operand.get(norm(e), 0) + 1
        for x, e, rep in tests:
            n = stmt_node_of(cfg, x)
            if n is None:
                continue
            n_tests += 1
            if not (rep or by_operand[norm(e)] > 1):
                continue
            for g, v in leaves(f, n, e, 0, set()):
                if _is_lazy(v):
                    problems.append((f, x.lineno, f'membership test against a one-shot iterator: {norm(x)[:50]}',
                                     f'`{norm(x)}` is evaluated repeatedly, and `{norm(e)}` can be the one-shot iterator `{norm(v)[:70]}` '
                                     f'(built in {g.qualname.rsplit(".", 2)[-2]}.{g.name}, line {v.lineno}): the first test consumes it, every '
                                     f'later test sees an exhausted iterator, so only the first name asked about can be found in it'))
    return n_tests, problems
