"""C02 — one response per call, none per notification; a batch maps over its elements."""
from __future__ import annotations

from typing import List

from ..absint import Interp
from ..model import AnalysisError, Program
from ..report import Check
from ..util import short
from . import c01
from .common import dispatchers
from .dfacts import batch_facts, method_call_facts, notif_facts


def run(ck: Check, prog: Program) -> None:
    from .common import dispatcher_program
    prog = dispatcher_program(prog)
    roles = dispatchers(prog)
    ck.explain('Dominance and typestate rules over the CFGs (with exception edges) of the per-element chain of both '
               'dispatchers: responses are built only on the not-a-notification edge and carry the request id; the bound '
               'method is invoked exactly once on every returning path and at most once on failing paths; the batch branch '
               'runs the same handler once per element of the parsed batch, order-preserving, after the whole document was '
               'deserialised and the size guard passed; the filtered results are tested for emptiness.')
    ck.assume('middlewares call the handler they are given at most once and return its result or their own response')
    ck.not_decided += ['execution counts inside user methods', 'id value identity across JSON typing (ids are copied, never transformed — shown by ID-ECHO)']
    interp = c01.make_interp(prog, roles)
    for r in roles:
        for f in r.chain:
            ck.functions.add(f.qualname)
        half = short(r.dispatch.qualname).split('.')[0]
        for name, extractor in (('NOTIF', lambda: notif_facts(prog, interp, r)),
                                ('METHOD', lambda: method_call_facts(prog, interp, r)),
                                ('BATCH', lambda: batch_facts(prog, r))):
            facts, problems = extractor()
            rules_here = {'NOTIF': ['NOTIF-SILENT', 'ID-ECHO'], 'METHOD': ['ONCE-INVOKE', 'SAME-ARGS', 'BIND-BEFORE-RUN', 'LOOKUP-EXACT'],
                          'BATCH': ['PER-ELEMENT-ONCE', 'SAME-CHAIN', 'ORDER-MAP', 'FILTER-UNSET', 'REJECT-BEFORE-RUN']}[name]
            for rule in rules_here:
                bad = [p for p in problems if p[0] == rule]
                ck.ob(rule, f'{half}: {rule}', not bad, sample={'facts': facts} if rule == rules_here[0] else None)
            for rule, construct, line, msg in problems:
                fn = {'NOTIF': r.handle_request, 'METHOD': r.handle_rpc_method, 'BATCH': r.dispatch}[name]
                ck.finding(rule, fn.qualname if name != 'NOTIF' else f'{r.cls.qualname}.<per-element chain>', construct,
                           fn.module.rel, line, msg)
        c01._empty_batch(ck, prog, r)
    ck.require('ONCE-INVOKE', 'dispatcher halves', len(roles), 2)
    # "a batch containing an element that is not a valid request object executes nothing": element validity is decided by
    # Request.from_json before any handler runs (REJECT-BEFORE-RUN) — its member guards are part of this property
    from . import c06
    mprog = c06.model_program(prog)
    rf = mprog.func('pjrpc.common.v20.Request.from_json')
    ck.functions.add(rf.qualname)
    c06._field_guards(ck, mprog, rf)
    c06._container_guard(ck, mprog, rf)
    c06.version_exact(ck, mprog, ('pjrpc.common.v20.Request.from_json',))
    # values taken from the request document are never hashed while they can still be arrays / objects (TypeError out of dispatch)
    for q_ in ('pjrpc.common.v20' + '.Request.from_json', 'pjrpc.common.v20' + '.BatchRequest.from_json'):
        hf_ = mprog.func(q_)
        ck.functions.add(hf_.qualname)
        c06._hash_uses(ck, mprog, hf_)
    # "whose parameters bind causes exactly one execution": binding is Signature.bind over the filtered signature of THIS method —
    # a signature shared between methods (memo keyed by name) makes a call that binds be refused and run zero times
    from .c04 import _bind_strict
    _bind_strict(ck, prog)
    # "the addressed method": the HTTP integrations hand the request to the dispatcher of the endpoint it was sent to
    from .c18 import route_bind
    route_bind(ck, prog)
    # "a rejected batch (... duplicate ids ...) executes nothing": every id but None takes part in the duplicate check of the
    # strict BatchRequest constructor that from_json uses
    addf = prog.func('pjrpc.common.v20.BatchRequest._add_ids')
    ck.functions.add(addf.qualname)
    dp = c06.dup_check_problems(prog, addf)
    ck.ob('DUP-CHECK', 'BatchRequest._add_ids: only None ids are exempt from the duplicate check; a duplicate raises IdentityError', not dp)
    for line, msg in dp:
        ck.finding('DUP-CHECK', addf.qualname, msg[:70], addf.module.rel, line, msg)


MUTANTS = [
    dict(name='method-lookup-through-an-lru-cache-object', file='pjrpc/server/dispatcher.py', nth=1,
         find='        method = self._registry.get(method_name)\n', replace='        method = self._lookup(method_name)\n',
         also=[dict(file='pjrpc/server/dispatcher.py', nth=1, find='        self._concurrent_batch = concurrent_batch\n',
                    replace='        self._concurrent_batch = concurrent_batch\n        self._lookup = ft.lru_cache(maxsize=None)(self._registry.get)\n')],
         expect='LOOKUP-EXACT'),
    dict(name='size-limit-applied-to-the-undecoded-document', file='pjrpc/server/dispatcher.py', nth=0,
         find='            request_json = self._json_loader(request_text, cls=self._json_decoder)\n',
         replace='            request_json = self._json_loader(request_text, cls=self._json_decoder)\n'
                 '            if self._max_batch_size and len(request_json) > self._max_batch_size:\n'
                 '                raise pjrpc.exceptions.DeserializationError("batch too large")\n', expect='REJECT-BEFORE-RUN'),
    dict(name='notification-error-answered', file='pjrpc/server/dispatcher.py', nth=0,
         find='        if request.id is None:\n            return UNSET\n\n        return self._response_class(id=request.id, error=error)',
         replace='        return self._response_class(id=request.id, error=error)', expect='NOTIF-SILENT'),
    dict(name='id-none-in-response', file='pjrpc/server/dispatcher.py', nth=1,
         find='return self._response_class(id=request.id, result=result)', replace='return self._response_class(id=None, result=result)',
         expect='ID-ECHO'),
    dict(name='invoke-again-on-error', file='pjrpc/server/dispatcher.py',
         find='            logger.exception("method unhandled exception %s(%r): %r", method_name, params, e)\n            raise pjrpc.exceptions.ServerError() from e\n\n\nclass AsyncDispatcher',
         replace='            logger.exception("method unhandled exception %s(%r): %r", method_name, params, e)\n            bound_method()\n            raise pjrpc.exceptions.ServerError() from e\n\n\nclass AsyncDispatcher',
         expect='ONCE-INVOKE'),
    dict(name='gather-to-as_completed', file='pjrpc/server/dispatcher.py',
         find='results = await asyncio.gather(*(self._request_handler(req, context) for req in request))',
         replace='results = [await c for c in asyncio.as_completed([self._request_handler(req, context) for req in request])]',
         expect='ORDER-MAP'),
    dict(name='size-check-geq', file='pjrpc/server/dispatcher.py', nth=0,
         find='len(request) > self._max_batch_size', replace='len(request) >= self._max_batch_size', expect='REJECT-BEFORE-RUN'),
    dict(name='sorted-responses', file='pjrpc/server/dispatcher.py', nth=0,
         find='response = self._batch_response(*responses) if responses else UNSET',
         replace='response = self._batch_response(*sorted(responses, key=lambda r: str(r.id))) if responses else UNSET', expect='ORDER-MAP'),
    dict(name='skip-notifications-in-batch', file='pjrpc/server/dispatcher.py',
         find='resp for resp in (self._request_handler(request, context) for request in request)',
         replace='resp for resp in (self._request_handler(request, context) for request in request if request.id is not None)',
         expect='PER-ELEMENT-ONCE'),
    dict(name='reintroduce-D2-empty-batch', file='pjrpc/server/dispatcher.py', nth=0,
         find='response = self._batch_response(*responses) if responses else UNSET',
         replace='response = self._batch_response(*responses)', expect='EMPTY-BATCH'),
    dict(name='invoke-in-bind-try', file='pjrpc/server/dispatcher.py', nth=0,
         find='            bound_method = method.bind(params, context=context)\n        except validators.ValidationError as e:',
         replace='            bound_method = method.bind(params, context=context)\n            return bound_method()\n        except validators.ValidationError as e:',
         expect=['BIND-BEFORE-RUN', 'ONCE-INVOKE']),
    dict(name='dup-check-skips-falsy-ids', file='pjrpc/common/v20.py', nth=1, find='            for id in ids:\n                if id is None:\n                    continue\n',
         replace='            for id in filter(None, ids):\n', expect='DUP-CHECK'),
]
