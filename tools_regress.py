#!/venv/bin/python
"""Development aid (not a registered check): run every sensitivity measure in parallel and summarise.
  tools_regress.py [battery] [neutral] [seeded] [sneutral]      (default: all four)
"""
import json, os, re, subprocess, sys
from concurrent.futures import ThreadPoolExecutor
HERE = os.path.dirname(os.path.abspath(__file__))
PROPS = [f'C{i:02d}' for i in range(1, 21)]
sys.path.insert(0, HERE)


def sh(cmd):
    r = subprocess.run(cmd, shell=True, cwd=HERE, capture_output=True, text=True)
    return r.returncode, r.stdout + r.stderr


def battery():
    bad = []
    def one(p):
        rc, o = sh(f'./check {p} --battery')
        try:
            j = json.loads(o[o.index('{'):])
            return p, j.get('missed', ['?']), len(j.get('detected', j.get('results', [])))
        except Exception:
            return p, ['<crash> ' + o[-300:]], 0
    with ThreadPoolExecutor(10) as ex:
        for p, missed, n in ex.map(one, PROPS):
            if missed:
                bad.append((p, missed))
    print('BATTERY:', 'all mutants detected' if not bad else f'MISSES {bad}')


def clean():
    bad = []
    def one(p):
        rc, o = sh(f'PJX_NOEVIDENCE=1 ./check {p}')
        return p, rc, [l for l in o.splitlines() if 'VIOLATION' in l or 'ANALYSIS-ERROR' in l or 'Traceback' in l]
    with ThreadPoolExecutor(10) as ex:
        for p, rc, lines in ex.map(one, PROPS):
            if rc != 0 or lines:
                bad.append((p, rc, lines[:3]))
    print('CLEAN TREE:', 'all 20 exit 0' if not bad else f'PROBLEMS {bad}')


def neutral():
    rc, o = sh('/venv/bin/python -m pjx.neutral --no-corpus')
    print('NEUTRAL (in-repo rewrites):', o.strip().splitlines()[-3:])


def seeded(ids):
    import tools_seeded as ts
    import io, contextlib
    buf = io.StringIO()
    with contextlib.redirect_stdout(buf):
        out = ts.fast(ids)
    miss = []
    for name, fired in sorted(out.items()):
        t = fired.get(name.split('-')[0])
        if not t or str(t).startswith("['ANALYSIS"):
            miss.append((name, fired))
    print(f'SEEDED: {len(out) - len(miss)}/{len(out)} caught by target; not caught:')
    for m in miss:
        print('   ', m)


def sneutral(ids):
    import tools_seeded as ts
    import io, contextlib
    buf = io.StringIO()
    with contextlib.redirect_stdout(buf):
        out = ts.fast(ids, base_name='seeded_neutral')
    al = {k: v for k, v in out.items() if v}
    print(f'SEEDED-NEUTRAL: {len(out) - len(al)}/{len(out)} silent; alarms:')
    for k, v in sorted(al.items()):
        print('   ', k, v)


if __name__ == '__main__':
    what = [a for a in sys.argv[1:] if a in ('battery', 'neutral', 'seeded', 'sneutral', 'clean')] or ['clean', 'battery', 'neutral', 'seeded', 'sneutral']
    ids = [a for a in sys.argv[1:] if a not in what]
    if 'clean' in what:
        clean()
    if 'battery' in what:
        battery()
    if 'neutral' in what:
        neutral()
    if 'seeded' in what:
        seeded(ids)
    if 'sneutral' in what:
        sneutral(ids)
