#!/venv/bin/python
"""Regenerates MANIFEST.json from the table below (kept in one place so it stays valid)."""
import json, os, subprocess
HERE = os.path.dirname(os.path.abspath(__file__))
props = [json.loads(l) for l in open(os.path.join(HERE, 'properties.jsonl'))]

CLAIMED = {
 'C01': dict(
    technique='static analysis: exception-escape by abstract interpretation over a CFG with exception edges (sentinel-kind domain, context-sensitive callees, class invariants) + dominance rules on wire shape, empty-batch guard and error-code provenance',
    text='Decides, for every request text at once, that no Exception class can leave either dispatch entry point (every raising site is routed to a handler, assertions of the message constructors are discharged from call-site facts), that the wire form has jsonrpc/id always and exactly one of result/error, that an accepted batch is never serialised empty, and that the codes tuple is computed from the serialised object. It does not enumerate inputs; it shows the code shape forces the behaviour, or names the construct where it does not.',
    note='Trusted: python ast, the pjx engine, a summary table for external callees (json.loads raises JSONDecodeError/ValueError, Signature.bind raises TypeError, ...). Assumes the default slot configuration (json.loads/dumps, v20 classes), that callables from dispatcher constructor parameters (middlewares, error handlers) do not raise (the property\'s proviso), that method results are JSON-encodable. Not decided: NaN literals, nesting beyond the recursion limit, custom loaders.',
    ref='DESIGN.md §3 C01'),
 'C06': dict(
    technique='static analysis: exception-escape by relational abstract interpretation (sentinel kinds) of the five from_json entry points with an unconstrained JSON argument + guard-dominance rules (member type table, bool-is-not-int, container guards) + write-before-raise ordering for batch append/extend',
    text='Decides for every JSON value at once that nothing but DeserializationError (IdentityError for batches) can leave a from_json: each raising site (explicit raises, KeyError of subscripts, constructor assertions analysed in the caller\'s context with falsifying assignments as witnesses) is routed through the handlers; every protocol member is dominated by a type guard within the specification table; batch append/extend perform no write before the last possible IdentityError.',
    note='Trusted: python ast, pjx engine, the admitted-type table (id: int|str|null, method: str, params: list|dict, code: int, message: str). Assumes from_json receives decoded JSON. TypeError/AttributeError from using a non-container as a container are covered by the CONTAINER-GUARD dominance rule rather than by the escape analysis.',
    ref='DESIGN.md §3 C06'),
 'C02': dict(
    technique='static analysis: CFG dominance + typestate (invocation counting over normal and exception edges) + structural batch-mapping rules over both dispatcher halves',
    text='Decides on the code shape that a response object is built only on the not-a-notification edge and carries the id of the request being handled (success and error paths), that the bound method is invoked exactly once on every returning path and never more than once on a failing one, that the batch branch runs the same middleware-wrapped handler once per element of the parsed batch with an order-preserving join, only after the whole document was deserialised and the strict size guard passed, that exactly the UNSET results are filtered and an all-notification batch yields nothing.',
    note='Trusted: python ast, pjx engine, asyncio.gather returns results in argument order. Assumes middlewares call their handler at most once. Not decided: execution counts inside user methods; id value identity across JSON typing is covered only in the sense that ids are copied, never transformed.',
    ref='DESIGN.md §3 C02'),
 'C03': dict(
    technique='static analysis: handler-inflow table from the exception-escape analysis compared with the JSON-RPC error table; taint rule for exception data; class-constant and wire-shape rules',
    text='Extracts the exception-class → error-class table from the handlers of dispatch and the per-element chain (which classes can flow into which handler is computed by the escape analysis, so shadowing by handler order is seen) and compares it with the JSON-RPC 2.0 table; checks the six standard codes, that the invocation is outside the -32602 try, that protocol errors are re-raised/kept as the same object, that nothing derived from an unexpected exception reaches the error constructor, and that error data is emitted iff set by identity test.',
    note='Trusted: python ast, pjx engine, summary that json.loads raises JSONDecodeError/ValueError. Not decided: whether a given text is JSON.',
    ref='DESIGN.md §3 C03'),
 'C09': dict(
    technique='static analysis: cycle/dominance rules and typestate over the CFG with exception edges of retry/retry_async; abstract interpretation for None-dereference; structural rules for backoff generators and strategy selection',
    text='Decides for every outcome sequence that each repetition of the attempt consumes a fresh next(delays) tested by identity (so at most attempts+1 sends), that exactly one sleep(delay) separates consecutive sends with none before the first or after the last, that the re-send condition is exactly is_error ∧ codes ∧ code∈codes or an except over the strategy\'s exception tuple, that the last response / the caught exception is what the caller gets, that the None returned for notifications is never dereferenced, that backoff generators are bounded by attempts with jitter inside the cap, and that a per-request strategy replaces the client one iff not UNSET.',
    note='Trusted: python ast, pjx engine. Not decided: the numeric delay values (periodic/exponential/Fibonacci), which are runtime quantities.',
    ref='DESIGN.md §3 C09'),
 'C12': dict(
    technique='static analysis: structural fold recognition (middleware chain, error-handler loop) + CFG reachability (handlers only from except edges)',
    text='Decides that the handler chain is partial(middleware, handler=chain) folded over reversed(middlewares) from the own per-element handler, that both dispatch branches call that one attribute once per element, that error handlers run generic-then-per-code from one chain() evaluated once, each receiving the previous result, whose last result is what the response carries, reachable only from except edges, not skipped for notifications, never touched by document-level rejections.',
    note='Trusted: python ast, pjx engine. Recognised fold forms are listed in DESIGN.md; another form yields ANALYSIS-ERROR, not a verdict. Not decided: behaviour of user middlewares.',
    ref='DESIGN.md §3 C12'),
 'C19': dict(
    technique='static analysis: typestate over the CFG with exception edges (BaseException out of the traced call) of both traced wrappers + decorator-order rule',
    text='Decides for every outcome including BaseException that each attempt produces begin, then exactly one of end (on return) or error followed by re-raise of the same exception, in tracer configuration order with one shared trace context, and that tracing is applied inside retrying so every attempt is traced.',
    note='Trusted: python ast, pjx engine. Assumes tracer callbacks do not raise.',
    ref='DESIGN.md §3 C19'),
}

NA_REASON = 'check under construction (static rules designed in DESIGN.md section 3, not yet built)'

checks = []
for p in props:
    pid = p['id']
    if pid in CLAIMED:
        c = CLAIMED[pid]
        checks.append({
            'property_id': pid,
            'quick_cmd': f'./check {pid} --tier quick',
            'thorough_cmd': f'./check {pid} --tier thorough',
            'evidence_file': f'/verif/evidence/{pid}.json',
            'replay_cmd_template': f'./check {pid} --replay {{path}}',
            'engine': 'pjx',
            'level_claimed': {'category': 'other', 'text': c['text'], 'design_ref': c['ref']},
            'level_note': c['note'],
            'technique': c['technique'],
        })
m = {
 'version': 1,
 'setup_cmd': './check --selftest-engine',
 'hooks': {'guard': 'PJRPC_VERIF', 'enable': 'none: the checks read /repo\'s source text; nothing in /repo is instrumented and the guard variable is unused',
           'baseline_off_cmd': 'cd /repo && /venv/bin/python -m pytest -ra -q -p no:cacheprovider --timeout=900 --continue-on-collection-errors',
           'source_commits': [], 'add_only': True},
 'engines': [{'name': 'pjx', 'path': '/verif/pjx', 'serves_properties': sorted(CLAIMED),
              'kind_free_text': 'repository-specific static analyser: ast program model, annotation-driven type inference and call resolution, CFG with exception edges, abstract interpretation (sentinel kinds), provenance, dominance/typestate rules; in-memory mutation battery'}],
 'checks': checks,
 'notes': 'All checks are static: they parse /repo/pjrpc with ast on every run and never import or execute pjrpc. exit 0 = held, 1 = VIOLATION, 2 = ANALYSIS-ERROR (analysis could not be carried out; never a verdict). Known findings: /verif/known_findings.json.',
 'not_applicable': [{'property_id': p['id'], 'reason': NA_REASON} for p in props if p['id'] not in CLAIMED],
}
json.dump(m, open(os.path.join(HERE, 'MANIFEST.json'), 'w'), indent=1)
print('claimed', sorted(CLAIMED))
