#!/venv/bin/python
"""Regenerates MANIFEST.json from the table below (kept in one place so it stays valid)."""
import json, os, subprocess
HERE = os.path.dirname(os.path.abspath(__file__))
props = [json.loads(l) for l in open(os.path.join(HERE, 'properties.jsonl'))]

CLAIMED = {
 'C01': dict(
    technique='static analysis: exception-escape by abstract interpretation over a CFG with exception edges (sentinel-kind domain, context-sensitive callees, class invariants) + dominance rules on wire shape, empty-batch guard and error-code provenance',
    text='Decides, for every request text at once, that no Exception class can leave either dispatch entry point (every raising site is routed to a handler, assertions of the message constructors are discharged from call-site facts), that the wire form has jsonrpc/id always and exactly one of result/error, that an accepted batch is never serialised empty, and that the codes tuple is computed from the serialised object. It does not enumerate inputs; it shows the code shape forces the behaviour, or names the construct where it does not.',
    note='Trusted: python ast, the pjx engine, a summary table for external callees (json.loads raises JSONDecodeError/ValueError, Signature.bind raises TypeError, ...). Assumes the default slot configuration (json.loads/dumps, v20 classes), that callables from dispatcher constructor parameters (middlewares, error handlers) do not raise (the property\'s proviso), that method results are JSON-encodable. Not decided: NaN literals, nesting beyond the recursion limit, custom loaders.',
    ref='DESIGN.md §3 C01'),
 'C06': dict(
    technique='static analysis: exception-escape by relational abstract interpretation (sentinel kinds) of the five from_json entry points with an unconstrained JSON argument + guard-dominance rules (member type table, bool-is-not-int, container guards) + write-before-raise ordering for batch append/extend',
    text='Decides for every JSON value at once that nothing but DeserializationError (IdentityError for batches) can leave a from_json: each raising site (explicit raises, KeyError of subscripts, constructor assertions analysed in the caller\'s context with falsifying assignments as witnesses) is routed through the handlers; every protocol member is dominated by a type guard within the specification table; batch append/extend perform no write before the last possible IdentityError.',
    note='Trusted: python ast, pjx engine, the admitted-type table (id: int|str|null, method: str, params: list|dict, code: int, message: str). Assumes from_json receives decoded JSON. TypeError/AttributeError from using a non-container as a container are covered by the CONTAINER-GUARD dominance rule rather than by the escape analysis.',
    ref='DESIGN.md §3 C06'),
 'C02': dict(
    technique='static analysis: CFG dominance + typestate (invocation counting over normal and exception edges) + structural batch-mapping rules over both dispatcher halves',
    text='Decides on the code shape that a response object is built only on the not-a-notification edge and carries the id of the request being handled (success and error paths), that the bound method is invoked exactly once on every returning path and never more than once on a failing one, that the batch branch runs the same middleware-wrapped handler once per element of the parsed batch with an order-preserving join, only after the whole document was deserialised and the strict size guard passed, that exactly the UNSET results are filtered and an all-notification batch yields nothing.',
    note='Trusted: python ast, pjx engine, asyncio.gather returns results in argument order. Assumes middlewares call their handler at most once. Not decided: execution counts inside user methods; id value identity across JSON typing is covered only in the sense that ids are copied, never transformed.',
    ref='DESIGN.md §3 C02'),
 'C03': dict(
    technique='static analysis: handler-inflow table from the exception-escape analysis compared with the JSON-RPC error table; taint rule for exception data; class-constant and wire-shape rules',
    text='Extracts the exception-class → error-class table from the handlers of dispatch and the per-element chain (which classes can flow into which handler is computed by the escape analysis, so shadowing by handler order is seen) and compares it with the JSON-RPC 2.0 table; checks the six standard codes, that the invocation is outside the -32602 try, that protocol errors are re-raised/kept as the same object, that nothing derived from an unexpected exception reaches the error constructor, and that error data is emitted iff set by identity test.',
    note='Trusted: python ast, pjx engine, summary that json.loads raises JSONDecodeError/ValueError. Not decided: whether a given text is JSON.',
    ref='DESIGN.md §3 C03'),
 'C09': dict(
    technique='static analysis: cycle/dominance rules and typestate over the CFG with exception edges of retry/retry_async; abstract interpretation for None-dereference; structural rules for backoff generators and strategy selection',
    text='Decides for every outcome sequence that each repetition of the attempt consumes a fresh next(delays) tested by identity (so at most attempts+1 sends), that exactly one sleep(delay) separates consecutive sends with none before the first or after the last, that the re-send condition is exactly is_error ∧ codes ∧ code∈codes or an except over the strategy\'s exception tuple, that the last response / the caught exception is what the caller gets, that the None returned for notifications is never dereferenced, that backoff generators are bounded by attempts with jitter inside the cap, and that a per-request strategy replaces the client one iff not UNSET.',
    note='Trusted: python ast, pjx engine. Not decided: the numeric delay values (periodic/exponential/Fibonacci), which are runtime quantities.',
    ref='DESIGN.md §3 C09'),
 'C12': dict(
    technique='static analysis: structural fold recognition (middleware chain, error-handler loop) + CFG reachability (handlers only from except edges)',
    text='Decides that the handler chain is partial(middleware, handler=chain) folded over reversed(middlewares) from the own per-element handler, that both dispatch branches call that one attribute once per element, that error handlers run generic-then-per-code from one chain() evaluated once, each receiving the previous result, whose last result is what the response carries, reachable only from except edges, not skipped for notifications, never touched by document-level rejections.',
    note='Trusted: python ast, pjx engine. Recognised fold forms are listed in DESIGN.md; another form yields ANALYSIS-ERROR, not a verdict. Not decided: behaviour of user middlewares.',
    ref='DESIGN.md §3 C12'),
 'C19': dict(
    technique='static analysis: typestate over the CFG with exception edges (BaseException out of the traced call) of both traced wrappers + decorator-order rule',
    text='Decides for every outcome including BaseException that each attempt produces begin, then exactly one of end (on return) or error followed by re-raise of the same exception, in tracer configuration order with one shared trace context, and that tracing is applied inside retrying so every attempt is traced.',
    note='Trusted: python ast, pjx engine. Assumes tracer callbacks do not raise.',
    ref='DESIGN.md §3 C19'),
 'C04': dict(
    technique='static analysis: API-misuse dataflow (BoundArguments.arguments → ** splat) through resolved validator overrides + structural/dominance rules for context exclusion/injection, binder strictness and copy-only result flow',
    text='Decides that the name→value mapping inspect.BoundArguments.arguments (wrong for *args/**kwargs/positional-only parameters) must not be double-splatted into the user method call, that the context name is excluded from client binding and injected after the client mapping (or as first positional / through the view constructor), that the binder is Signature.bind over the filtered signature with TypeError→ValidationError, and that the method\'s return value reaches Response(result=…) through copies only. Reports the genuine defect D3 as KNOWN-FINDING.',
    note='Trusted: python ast, pjx engine, inspect\'s documented semantics of BoundArguments.arguments vs .args/.kwargs. Not decided: the cross product signatures × argument lists is inspect\'s semantics.',
    ref='DESIGN.md §3 C04'),
 'C05': dict(
    technique='static analysis: writer/reader key-table extraction with guard dominance/post-dominance (wire tables), sentinel-kind abstract interpretation (truthiness on sentinel-typed values), parameter-forwarding and registry structure rules',
    text='Decides the structural necessary conditions of the round trip: to_json and from_json of Request/Response/JsonRpcError use the same key set, each optional member\'s omission condition pairs with the reader default, each key maps to the same constructor parameter in both directions, batch forms are element-wise in storage order, the version constant is "2.0", no sentinel-typed value or protocol scalar is tested by truthiness, the error class is looked up in the code registry with the supplied base as default and error_cls is forwarded through nested deserialisers, and the JSON encoder covers every message class.',
    note='Trusted: python ast, pjx engine. Not decided: value equality after JSON encode/decode for arbitrary payloads (json\'s semantics) — runtime values.',
    ref='DESIGN.md §3 C05'),
 'C07': dict(
    technique='static analysis: structural rules over every call notation and _send (single request construction, id provenance, one transport call) + declared-type rule for id generators',
    text='Decides structural necessary conditions only: each notation builds exactly one request with an id drawn from the (per-batch single) generator or none for notifications, positional xor named arguments, method name unmodified; _send transmits one document, decodes with the client error class, relates the response, and treats a body for a notification as an error in strict mode (matching the server\'s silence); is_notification definitions; every public id generator yields str|int. Reports D7 (generators.uuid) as KNOWN-FINDING.',
    note='Trusted: python ast, pjx engine. Not decided: end-to-end value equality and interchangeability of notations on concrete data (runtime values).',
    ref='DESIGN.md §3 C07'),
 'C08': dict(
    technique='static analysis: guard-conjunction extraction by CFG dominance in the two _relate validators, abstract interpretation of Response.result under the class invariant, order-provenance rule for batch results',
    text='Decides that IdentityError is raised exactly on strict ∧ id not None ∧ ids differ (plain comparison), that accepted responses are linked, that batch misses/leftovers/duplicates are rejected under strict (default True), that Response.result raises iff an error is set and BatchResponse.result raises the batch error first, and whether the returned result sequence is sequenced by the request batch. Reports D8 (server-order results) as KNOWN-FINDING.',
    note='Trusted: python ast, pjx engine. The permutation space is not enumerated; the rule shows whether order is taken from the request.',
    ref='DESIGN.md §3 C08'),
 'C10': dict(
    technique='static analysis: effect/retention analysis (non-interference) over the async per-element call tree + order-preserving-join rule + flag liveness and sequential-mode structure',
    text='Decides by non-interference rather than schedule enumeration: the per-element handler tree writes no state shared between batch elements, each response is built from its own request parameter and the join is asyncio.gather / a sequential comprehension (order-preserving), so no interleaving can exchange ids or results; every constructor option stored on the dispatcher is read, and with concurrent_batch off the elements are awaited one by one with no task combinator.',
    note='Trusted: python ast, pjx engine, asyncio.gather\'s documented result order. Assumes user callables share no state. Schedules are not enumerated.',
    ref='DESIGN.md §3 C10'),
 'C11': dict(
    technique='static analysis: twin fact comparison — semantic fact records of the C01–C03/C07–C09/C12/C19 extractors plus per-pair bags (raised, caught, constructed errors, callees, conditions, return shapes) compared between the sync and async halves after await erasure',
    text='Decides for 17 hand-copied twin pairs that the synchronous and asynchronous versions yield equal fact records and equal bags; declared asymmetries (gather vs generator, iscoroutine/await step, concurrent_batch) are recognised by the extractors. Any one-sided edit that changes a compared facet is reported with both sides.',
    note='Trusted: python ast, pjx engine. Not decided: behavioural equality on facets no fact covers; the facets compared are listed in the evidence.',
    ref='DESIGN.md §3 C11'),
 'C13': dict(
    technique='static analysis: effect and retention analysis over the whole dispatch call tree (shared writes; per-request taint into long-lived sinks incl. lru_cache keys) + mutable-default and registry-write rules',
    text='Decides that the dispatch call tree of both dispatchers writes no long-lived state (so responses cannot depend on history or other threads), that no per-request value reaches a long-lived sink (attribute/container store or memoised-function argument), that mutable defaults are never mutated and the error registry is written only at class creation. Reports D13 (bound view methods as lru_cache keys) as KNOWN-FINDING.',
    note='Trusted: python ast, pjx engine, functools.lru_cache keeps its arguments alive as keys. Assumes registered methods keep no state. Memory growth itself is not measured.',
    ref='DESIGN.md §3 C13'),
 'C14': dict(
    technique='static analysis: CFG dominance (bind ≺ schema validation ≺ return) in every validate_method override, parameter forwarding, exclusion-formula extraction, payload and encoder structure rules',
    text='Decides the structural clauses: every validator binds before validating before returning, forwards exclude to the signature filter, drops a parameter iff excluded or selected by the predicate, feeds one filtered signature to binder and schema builder, raises ValidationError with string payloads that the server encoder serialises, switches coercion correctly, and the dispatcher validates before invoking.',
    note='Trusted: python ast, pjx engine. Not decided: "iff the arguments satisfy the schema/annotations" — semantics of jsonschema and pydantic (third party); PydanticValidator is inoperative under the installed pydantic.',
    ref='DESIGN.md §3 C14'),
 'C15': dict(
    technique='static analysis: symbolic evaluation of the name-composition expression of each registration operation + store/lookup/filter structure rules',
    text='Decides per registration operation (add, view, merge, dispatcher delegation) that the stored key is the dot-join of the non-empty prefixes and the explicit or own name, that the store is an unconditional assignment, that views expose exactly public callables, and that the lookup is exact on the unmodified request method name with a miss → -32601; induction over histories follows from the per-operation forms.',
    note='Trusted: python ast, pjx engine. Recognised composition forms are listed in DESIGN.md; another form yields ANALYSIS-ERROR. Raw Method(...) instances keep their given name (outside the property alphabet).',
    ref='DESIGN.md §3 C15'),
 'C16': dict(
    technique='static analysis: borrowed/fresh provenance analysis (purity), loop-carried dependence analysis of the per-method loops, loop completeness, $ref-prefix/key agreement, interface-shape sibling check over extractor implementations',
    text='Decides that generation mutates no borrowed object (method metadata, annotation lists, generator state, user-passed maps) and works on a deep copy of the template, that no local of the per-method loop is live into the next iteration, that every method gets exactly one entry keyed by its exposed name, that components are registered under the prefix used in ref_template, and that constant subscripts applied to extractor results are provided by every extractor implementation.',
    note='Trusted: python ast, pjx engine. Not decided: JSON-encodability and meta-schema validity of the documents (values produced by pydantic/dataclasses — third-party semantics).',
    ref='DESIGN.md §3 C16'),
 'C17': dict(
    technique='static analysis: sibling agreement — exclusion formula extraction from the binder and the documenter, exclude-expression comparison at the three call sites, required/default mapping, binding-state comparison of documented vs bound callable',
    text='Decides that binder and documents keep a parameter under the same formula and the same exclude expression, that required ⇔ no default, and whether the documented callable is the bound callable in the same binding state. Reports D17 (view methods document self) as KNOWN-FINDING.',
    note='Trusted: python ast, pjx engine. Not decided: the docstring extractor documents free text.',
    ref='DESIGN.md §3 C17'),
 'C18': dict(
    technique='static analysis: gate recognition against a framework accessor table, CFG dominance of the dispatch call, exception-escape analysis of the WSGI callable, copy-only relay rules, sibling comparison of the three integrations',
    text='Decides per integration that the gate compares a parameter-free media type with REQUEST_CONTENT_TYPES and dominates dispatch, that a refusal becomes a reply (no HTTPException escapes a bare WSGI callable), that the body is the dispatcher text with the JSON content type and status_by_error status (empty 200 for None), and that the three integrations use the same kind of gate.',
    note='Trusted: python ast, pjx engine, the framework accessor table (aiohttp content_type / werkzeug-flask mimetype are parameter-free; content_type raw; is_json only application/json and +json). Other integrations are outside the property.',
    ref='DESIGN.md §3 C18'),
 'C20': dict(
    technique='static analysis: structural rules and typestate (recording count) over _match_request/_on_request, sentinel-kind rule on the reply id',
    text='Decides the per-operation effects: head pop and tail re-append iff not once with cleanup, exactly one recording with the request params before every matched reply, reply id = request id with the configured id only when the request id is None, -32601 with the request id for unpatched methods, passthrough/refusal for unpatched endpoints, element-wise in-order batches.',
    note='Trusted: python ast, pjx engine. Not decided: the history state space beyond per-operation effects.',
    ref='DESIGN.md §3 C20'),
}

NA_REASON = 'check under construction (static rules designed in DESIGN.md section 3, not yet built)'

checks = []
for p in props:
    pid = p['id']
    if pid in CLAIMED:
        c = CLAIMED[pid]
        checks.append({
            'property_id': pid,
            'quick_cmd': f'./check {pid} --tier quick',
            'thorough_cmd': f'./check {pid} --tier thorough',
            'evidence_file': f'/verif/evidence/{pid}.json',
            'replay_cmd_template': f'./check {pid} --replay {{path}}',
            'engine': 'pjx',
            'level_claimed': {'category': 'other', 'text': c['text'], 'design_ref': c['ref']},
            'level_note': c['note'],
            'technique': c['technique'],
        })
m = {
 'version': 1,
 'setup_cmd': './check --selftest-engine',
 'hooks': {'guard': 'PJRPC_VERIF', 'enable': 'none: the checks read /repo\'s source text; nothing in /repo is instrumented and the guard variable is unused',
           'baseline_off_cmd': 'cd /repo && /venv/bin/python -m pytest -ra -q -p no:cacheprovider --timeout=900 --continue-on-collection-errors',
           'source_commits': [], 'add_only': True},
 'engines': [{'name': 'pjx', 'path': '/verif/pjx', 'serves_properties': sorted(CLAIMED),
              'kind_free_text': 'repository-specific static analyser: ast program model, annotation-driven type inference and call resolution, CFG with exception edges, abstract interpretation (sentinel kinds), provenance, dominance/typestate rules; in-memory mutation battery'}],
 'checks': checks,
 'notes': 'All checks are static: they parse /repo/pjrpc with ast on every run and never import or execute pjrpc. exit 0 = held, 1 = VIOLATION, 2 = ANALYSIS-ERROR (analysis could not be carried out; never a verdict). Known findings: /verif/known_findings.json.',
 'not_applicable': [{'property_id': p['id'], 'reason': NA_REASON} for p in props if p['id'] not in CLAIMED],
}
json.dump(m, open(os.path.join(HERE, 'MANIFEST.json'), 'w'), indent=1)
print('claimed', sorted(CLAIMED))
