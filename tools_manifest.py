#!/venv/bin/python
"""Regenerates MANIFEST.json from the table below (kept in one place so it stays valid)."""
import json, os, subprocess
HERE = os.path.dirname(os.path.abspath(__file__))
props = [json.loads(l) for l in open(os.path.join(HERE, 'properties.jsonl'))]

CLAIMED = {
 'C01': dict(
    technique='static analysis: exception-escape by abstract interpretation over a CFG with exception edges (sentinel-kind domain, context-sensitive callees, class invariants) + dominance rules on wire shape, empty-batch guard and error-code provenance',
    text='Decides, for every request text at once, that no Exception class can leave either dispatch entry point (every raising site is routed to a handler, assertions of the message constructors are discharged from call-site facts), that the wire form has jsonrpc/id always and exactly one of result/error, that an accepted batch is never serialised empty, and that the codes tuple is computed from the serialised object. It does not enumerate inputs; it shows the code shape forces the behaviour, or names the construct where it does not.',
    note='Trusted: python ast, the pjx engine, a summary table for external callees (json.loads raises JSONDecodeError/ValueError, Signature.bind raises TypeError, ...). Assumes the default slot configuration (json.loads/dumps, v20 classes), that callables from dispatcher constructor parameters (middlewares, error handlers) do not raise (the property\'s proviso), that method results are JSON-encodable. Not decided: NaN literals, nesting beyond the recursion limit, custom loaders.',
    ref='DESIGN.md §3 C01'),
 'C06': dict(
    technique='static analysis: exception-escape by relational abstract interpretation (sentinel kinds) of the five from_json entry points with an unconstrained JSON argument + guard-dominance rules (member type table, bool-is-not-int, container guards) + write-before-raise ordering for batch append/extend',
    text='Decides for every JSON value at once that nothing but DeserializationError (IdentityError for batches) can leave a from_json: each raising site (explicit raises, KeyError of subscripts, constructor assertions analysed in the caller\'s context with falsifying assignments as witnesses) is routed through the handlers; every protocol member is dominated by a type guard within the specification table; batch append/extend perform no write before the last possible IdentityError.',
    note='Trusted: python ast, pjx engine, the admitted-type table (id: int|str|null, method: str, params: list|dict, code: int, message: str). Assumes from_json receives decoded JSON. TypeError/AttributeError from using a non-container as a container are covered by the CONTAINER-GUARD dominance rule rather than by the escape analysis.',
    ref='DESIGN.md §3 C06'),
}

NA_REASON = 'check under construction (static rules designed in DESIGN.md section 3, not yet built)'

checks = []
for p in props:
    pid = p['id']
    if pid in CLAIMED:
        c = CLAIMED[pid]
        checks.append({
            'property_id': pid,
            'quick_cmd': f'./check {pid} --tier quick',
            'thorough_cmd': f'./check {pid} --tier thorough',
            'evidence_file': f'/verif/evidence/{pid}.json',
            'replay_cmd_template': f'./check {pid} --replay {{path}}',
            'engine': 'pjx',
            'level_claimed': {'category': 'other', 'text': c['text'], 'design_ref': c['ref']},
            'level_note': c['note'],
            'technique': c['technique'],
        })
m = {
 'version': 1,
 'setup_cmd': './check --selftest-engine',
 'hooks': {'guard': 'PJRPC_VERIF', 'enable': 'none: the checks read /repo\'s source text; nothing in /repo is instrumented and the guard variable is unused',
           'baseline_off_cmd': 'cd /repo && /venv/bin/python -m pytest -ra -q -p no:cacheprovider --timeout=900 --continue-on-collection-errors',
           'source_commits': [], 'add_only': True},
 'engines': [{'name': 'pjx', 'path': '/verif/pjx', 'serves_properties': sorted(CLAIMED),
              'kind_free_text': 'repository-specific static analyser: ast program model, annotation-driven type inference and call resolution, CFG with exception edges, abstract interpretation (sentinel kinds), provenance, dominance/typestate rules; in-memory mutation battery'}],
 'checks': checks,
 'notes': 'All checks are static: they parse /repo/pjrpc with ast on every run and never import or execute pjrpc. exit 0 = held, 1 = VIOLATION, 2 = ANALYSIS-ERROR (analysis could not be carried out; never a verdict). Known findings: /verif/known_findings.json.',
 'not_applicable': [{'property_id': p['id'], 'reason': NA_REASON} for p in props if p['id'] not in CLAIMED],
}
json.dump(m, open(os.path.join(HERE, 'MANIFEST.json'), 'w'), indent=1)
print('claimed', sorted(CLAIMED))
