#!/venv/bin/python
"""Seeded-change harness (not a registered check).

  tools_seeded.py validate /tmp/wt/c01 A      confirm a sub-agent's mutation in ITS scratch worktree:
                                              demo passes clean, fails mutated; suite unchanged with the mutation
  tools_seeded.py import /tmp/wt/c01 A C01    copy it to /verif/seeded/C01-A/ (patch.diff, demo.py, meta.json)
  tools_seeded.py run [ID ...]                apply each seeded patch to /repo, run every check, undo; prints which rules fire
"""
import json
import os
import re
import subprocess
import sys

HERE = os.path.dirname(os.path.abspath(__file__))
PY = '/venv/bin/python'
PROPS = [f'C{i:02d}' for i in range(1, 21)]


def sh(cmd, cwd=None, env=None):
    e = dict(os.environ)
    if env:
        e.update(env)
    r = subprocess.run(cmd, shell=True, cwd=cwd, env=e, capture_output=True, text=True)
    return r.returncode, r.stdout + r.stderr


def suite(wt):
    rc, out = sh(f'{PY} -m pytest -q -p no:cacheprovider --timeout=900 --continue-on-collection-errors 2>&1 | tail -60', cwd=wt, env={'PYTHONPATH': wt})
    m = re.search(r'(\d+) failed, (\d+) passed', out)
    failed = sorted(re.findall(r'^FAILED (\S+)', out, re.M))
    return (int(m.group(2)), int(m.group(1))) if m else (None, None), out


def validate(wt, letter):
    diff = os.path.join(wt, f'MUTATION_{letter}.diff')
    demo = os.path.join(wt, f'demo_{letter}.py')
    res = {}
    sh('git checkout -- pjrpc', cwd=wt)
    rc0, out0 = sh(f'{PY} {demo}', cwd=wt, env={'PYTHONPATH': wt})
    res['demo_clean_rc'] = rc0
    rca, outa = sh(f'git apply {diff}', cwd=wt)
    res['apply_rc'] = rca
    rc1, out1 = sh(f'{PY} {demo}', cwd=wt, env={'PYTHONPATH': wt})
    res['demo_mutated_rc'] = rc1
    res['demo_mutated_tail'] = out1.strip().splitlines()[-1:] if out1.strip() else []
    (p, f), out = suite(wt)
    res['suite_mutated'] = f'{p} passed / {f} failed'
    sh('git checkout -- pjrpc', cwd=wt)
    res['ok'] = rc0 == 0 and rca == 0 and rc1 != 0 and p == 219 and f == 44
    return res


def import_(wt, letter, prop, what_it_needs='', validated=None, as_letter=None):
    d = os.path.join(HERE, 'seeded', f'{prop}-{as_letter or letter}')
    os.makedirs(d, exist_ok=True)
    sh(f'cp {wt}/MUTATION_{letter}.diff {d}/patch.diff')
    sh(f'cp {wt}/demo_{letter}.py {d}/demo.py')
    notes = open(os.path.join(wt, 'NOTES.md')).read() if os.path.exists(os.path.join(wt, 'NOTES.md')) else ''
    meta = {'property': prop, 'source': 'independent sub-agent given only the property text and a scratch worktree',
            'needs_to_manifest': what_it_needs, 'notes': notes,
            'what_was_run': 'in the scratch worktree: demo on the clean tree (exit 0), demo with the patch applied (non-zero), '
                            'full pytest suite with the patch applied (219 passed / 44 failed = baseline)',
            'validation': validated}
    json.dump(meta, open(os.path.join(d, 'meta.json'), 'w'), indent=1)
    return d


def run(ids):
    base = os.path.join(HERE, 'seeded')
    out = {}
    for name in sorted(os.listdir(base)):
        if not os.path.isdir(os.path.join(base, name)):
            continue
        if ids and name not in ids and name.split('-')[0] not in ids:
            continue
        d = os.path.join(base, name)
        patch = os.path.join(d, 'patch.diff')
        rc, o = sh(f'git -C /repo apply {patch}')
        if rc != 0:
            out[name] = {'error': 'patch does not apply: ' + o.strip()[:200]}
            print(name, out[name])
            continue
        try:
            fired = {}
            for p in PROPS:
                rc, o = sh(f'./check {p}', cwd=HERE)
                rules = sorted(set(re.findall(r'^\S+: \[([A-Z-]+)\]', o, re.M)))
                if rc == 1:
                    fired[p] = rules
                elif rc == 2:
                    fired[p] = ['ANALYSIS-ERROR: ' + (re.findall(r'ANALYSIS-ERROR: (.*)', o) or ['?'])[0][:120]]
            out[name] = fired
        finally:
            sh('git -C /repo checkout -- .')
        target = name.split('-')[0]
        print(f'{name}: target {target} -> {"CAUGHT by " + str(fired.get(target)) if target in fired and not str(fired[target]).startswith("[\'ANALYSIS") else "MISSED by target"}; all: {fired}')
    # restore evidence written while mutated
    for p in PROPS:
        sh(f'./check {p}', cwd=HERE)
    json.dump(out, open(os.path.join(HERE, 'seeded', 'RESULTS.json'), 'w'), indent=1)
    return out


def _fast_one(name, base_name='seeded'):
    import shutil, tempfile
    d = os.path.join(HERE, base_name, name)
    tmp = tempfile.mkdtemp(prefix='pjx_seed_', dir='/tmp')
    try:
        shutil.copytree('/repo/pjrpc', os.path.join(tmp, 'pjrpc'))
        rc, o = sh(f'patch -p1 -s -d {tmp} < {d}/patch.diff')
        if rc != 0:
            return name, {'error': o[:200]}
        fired = {}
        for p in PROPS:
            rc, o = sh(f'{PY} -c "import sys; sys.path.insert(0, \'{HERE}\'); from pjx.__main__ import main; from pjx import report; report.finish = (lambda ck, battery=None: print(chr(10).join(f.file+chr(58)+chr(32)+chr(91)+f.rule+chr(93) for f in ck.findings if f.key not in {{(k[\'rule\'],k[\'function\'],k[\'construct\']) for k in report.load_known() if k.get(\'status\')==\'known\'}})) or 0); import pjx.__main__ as m; m.finish = report.finish; sys.exit(main([\'{p}\']))"', cwd=HERE, env={'PJX_REPO': tmp})
            rules = sorted(set(re.findall(r'\[([A-Z-]+)\]', o)))
            if 'ANALYSIS-ERROR' in o:
                fired[p] = ['ANALYSIS-ERROR: ' + (re.findall(r'ANALYSIS-ERROR: (.*)', o) or ['?'])[0][:100]]
            elif rules:
                fired[p] = rules
        return name, fired
    finally:
        shutil.rmtree(tmp, ignore_errors=True)


def import_neutral(wt, area):
    import glob, shutil
    out = []
    for f in sorted(glob.glob(os.path.join(wt, 'REFACTOR_R*.diff'))):
        k = os.path.basename(f)[len('REFACTOR_'):-len('.diff')]
        d = os.path.join(HERE, 'seeded_neutral', f'{area}-{k}')
        os.makedirs(d, exist_ok=True)
        shutil.copy(f, os.path.join(d, 'patch.diff'))
        notes = open(os.path.join(wt, 'NOTES.md')).read() if os.path.exists(os.path.join(wt, 'NOTES.md')) else ''
        json.dump({'kind': 'behaviour-preserving refactoring written by an independent sub-agent (suite unchanged; transcript of an '
                           'edge-case exerciser identical before/after)', 'area': area, 'notes': notes}, open(os.path.join(d, 'meta.json'), 'w'), indent=1)
        out.append(d)
    return out


def fast(ids, base_name='seeded'):
    """Development aid: evaluate the seeded patches on scratch copies (PJX_REPO) in parallel; evidence files are not touched."""
    from concurrent.futures import ProcessPoolExecutor
    base = os.path.join(HERE, base_name)
    names = [n for n in sorted(os.listdir(base)) if os.path.isdir(os.path.join(base, n)) and not n.startswith('_') and (not ids or n in ids or n.split('-')[0] in ids or any(n.startswith(i) for i in ids))]
    out = {}
    import functools
    with ProcessPoolExecutor(14) as ex:
        for name, fired in ex.map(functools.partial(_fast_one, base_name=base_name), names):
            out[name] = fired
            target = name.split('-')[0]
            t = fired.get(target)
            if base_name != 'seeded':
                print(f'{name}: {"SILENT" if not fired else "ALARM " + str(fired)}')
                continue
            verdict = 'CAUGHT by ' + str(t) if t and not str(t).startswith("['ANALYSIS") else ('ANALYSIS-ERROR in target' if t else 'MISSED by target')
            print(f'{name}: target {target} -> {verdict}; all: {fired}')
    return out


def readme():
    """Regenerate seeded/README.md from the meta files and a fresh evaluation (scratch copies of /repo's working tree)."""
    base = os.path.join(HERE, 'seeded')
    import io, contextlib
    buf = io.StringIO()
    with contextlib.redirect_stdout(buf):
        res = fast([])
    json.dump(res, open(os.path.join(base, 'RESULTS.json'), 'w'), indent=1)
    rows = []
    rounds = {'A': 1, 'B': 1, 'C': 2, 'D': 2, 'E': 3, 'F': 3, 'G': 4, 'H': 4, 'I': 5, 'J': 5}
    for name in sorted(res):
        m = json.load(open(os.path.join(base, name, 'meta.json')))
        needs = m.get('needs_to_manifest') or ''
        if not needs:
            notes = m.get('notes', '')
            letter = {'E': 'A', 'F': 'B', 'G': 'A', 'H': 'B', 'I': 'A', 'J': 'B'}.get(name[-1], name[-1])
            sec = re.split(r'(?im)^\s*(?:#+|\*\*)\s*mutation\s+', notes)
            mine = next((x for x in sec if x.strip().upper().startswith(letter)), notes)
            cand = [l.strip(' -*') for l in mine.splitlines() if re.search(r'(?i)need|trigger|manifest', l)]
            needs = (cand[0] if cand else '')[:220]
        fr = m.get('first_run')
        if isinstance(fr, dict):
            fr = f"r{fr.get('round')}: {fr.get('verdict', '')}" + (f" (others: {fr.get('all')})" if 'MISSED' in fr.get('verdict', '') and fr.get('all') not in ('{}', None) else '')
        fired = res[name]
        now = '; '.join(f"{p}: {', '.join(r)}" for p, r in sorted(fired.items())) or 'NOT REPORTED'
        tgt = name.split('-')[0]
        mark = '' if (tgt in fired and not str(fired[tgt]).startswith("['ANALYSIS")) else ' **(target check silent)**'
        rows.append(f"| {name} | {(m.get('change') or '').replace('|', '¦')[:230]} | {needs.replace('|', '¦')} | {str(fr or '').replace('|', '¦')[:200]} | {now.replace('|', '¦')}{mark} |")
    n = len(rows)
    caught = sum(1 for name in res if name.split('-')[0] in res[name] and not str(res[name][name.split('-')[0]]).startswith("['ANALYSIS"))
    head = f"""# Seeded changes: what they are, what they need, which checks catch them

{n} changes. Suffix A..L, N, O: written by independent sub-agents (rounds of 20 properties × 2), each given only the property text and a scratch
worktree of /repo. Suffix Mnnnn: single-point mutants of the mutation sweep (`tools_sweep.py`; M0nnn first generation, M2nnn / M3nnn second) that no check
and no test noticed, classified as violations and demonstrated by independent sub-agents.
Every one was confirmed by me in its scratch worktree before being kept: demo passes on the clean tree, fails with the patch, full suite unchanged (219 passed / 44 failed)
(for the django / starlette handlers, which cannot be run here, the demo drives the real handler through an in-memory stand-in of the framework).
Suffix = round: A,B round 1 · C,D round 2 · E,F round 3 · G,H round 4 · I,J round 5 · K,L round 6 · N,O round 7 · P,Q (and two re-filed as R) round 8.
`_residue/` holds confirmed violations the checks do not decide (third-party semantics).
`first run` is the verdict of the checks as they were when the change arrived (before any strengthening for that round).
`caught now by` lists, per property check, the rules that report the change on the current machinery (`tools_seeded.py readme`: each patch applied to a scratch copy of
/repo's working tree, all 20 checks run on it through PJX_REPO; the thorough tier of every check re-evaluates its own seeds in memory on every run and records them in the evidence).
Currently {caught} of {n} are reported by the check of the property they target.

| id | change | needs | first run | caught now by |
|---|---|---|---|---|
"""
    open(os.path.join(base, 'README.md'), 'w').write(head + '\n'.join(rows) + '\n')
    print(f'{caught}/{n} caught by target')


if __name__ == '__main__':
    cmd = sys.argv[1]
    if cmd == 'validate':
        print(json.dumps(validate(sys.argv[2], sys.argv[3]), indent=1))
    elif cmd == 'import':
        print(import_(sys.argv[2], sys.argv[3], sys.argv[4]))
    elif cmd == 'run':
        run(sys.argv[2:])
    elif cmd == 'fast':
        fast(sys.argv[2:])
    elif cmd == 'neutral':
        fast(sys.argv[2:], base_name='seeded_neutral')
    elif cmd == 'readme':
        readme()
